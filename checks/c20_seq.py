"""C20 (sequential laws) - harness generator for engine A (CrossHair).

Delivers  gen(tier) -> harness source for vf.xh.run_module, ENCODED / BOUNDS / OUTSIDE / ASSUME, classify(name, call),
run_into(rep, tier) (what checks/c20.py calls), replay(data) and main() (`python -m checks.c20_seq [quick|thorough]`:
plain-python random/exhaustive smoke run of the same harness functions, a debugging aid).

(a) WorkerRegistry.register / refresh / unregister / get over operation sequences of length <= 4; the operation and the
    address of every step are chosen by a symbolic int, the times are symbolic ints (the code is traced: `max`, the dead
    guard and the comparisons of the oracle are solver queries).
    Intended semantics (read from the code and its comments): `unregister` = "the worker has pronounced dead"
    (value None); `refresh` = client side heartbeat bookkeeping (completion of an RPC that was SENT at time_) and "cannot
    update the worker that is already dead"; `register` = server side heartbeat ("assign the heartbeat directly as server
    side heartbeat precedes the client side one", CourierServer._heartbeat) - an explicit register DOES revive an
    unregistered address and assigns the time as is (it may also move the recorded time backwards; only `refresh` is
    monotone). Hence: after unregister(a) and until the next register(a): get(a) == 0 whatever is refreshed.
(b) CourierClient.is_alive / _is_heartbeat_fresh on a fake courier transport with a symbolic clock: alive <=> now - last
    < threshold where last = the registry entry after the finished pending calls were folded in (refresh with their SEND
    time); dead (unregistered) addresses stay dead whatever finishes.
(c) ownership in one thread: 2 pools x 2 shared workers, operation sequences chosen by symbolic ints (decided in traced
    code, the library then runs on concrete data with tracing off): at most one owner, release_all of A never changes a
    worker of B, nothing acquired after release_all, acquired_workers disjoint; pool level operations call_and_wait / run
    leave nothing acquired when they return or raise.
"""
import os
import sys

PRELUDE = r'''
import sys as _sys, types as _types
from concurrent import futures as _cf

class DeadlineExceeded(Exception):
  code = 4
class AppError(ValueError):
  pass

class _Futures:
  def __init__(self, client): self._c = client
  def __getattr__(self, method):
    c = self._c
    return lambda *a, **k: NET.call(c, method, a, k)
class Client:
  def __init__(self, address, call_timeout=None):
    self.address = address; self.call_timeout = call_timeout; self.futures = _Futures(self)
class Server:
  def __init__(self, *a, **k): raise RuntimeError('no courier server in this harness')
_fake = _types.ModuleType('courier'); _fake.Client = Client; _fake.Server = Server
_sys.modules['courier'] = _fake

from ml_metrics._src.utils import courier_utils, func_utils
from ml_metrics._src.chainables import courier_worker, lazy_fns
for _m in (courier_utils, courier_worker, func_utils, lazy_fns):
  if hasattr(_m, 'logging'): _m.logging = _VfNoLog()

if _VF_SYMBOLIC:
  from crosshair.tracers import NoTracing as _NoTracing, ResumedTracing as _ResumedTracing
else:
  import contextlib as _ctx
  _NoTracing = _ResumedTracing = _ctx.nullcontext

class Net:
  """Settable clock (time() returns `now`, sleep(s) adds s) + scripted transport: every call returns a real Future whose
  fate is the next entry of `script` ('ok' | 'error' | 'deadline' | 'cancel' | 'pending'); default 'ok'."""
  def reset(self, script=()):
    self.now = 0; self.script = list(script); self.calls = []
    courier_utils.worker_registry().data.clear()
    func_utils.SingletonMeta._instances.clear()
  def time(self): return self.now
  def sleep(self, s): self.now = self.now + s
  def call(self, client, method, a, k):
    f = _cf.Future()
    fate = self.script.pop(0) if self.script else 'ok'
    self.calls.append((client.address, method, fate))
    if fate == 'ok': f.set_result(_SEVEN if method == 'maybe_make' else None)
    elif fate == 'error': f.set_exception(AppError('application error'))
    elif fate == 'deadline': f.set_exception(DeadlineExceeded('deadline exceeded'))
    elif fate == 'cancel': f.cancel()
    return f
NET = Net()
_SEVEN = lazy_fns.pickler.dumps(7)
_clock = _types.SimpleNamespace(time=lambda: NET.time(), sleep=lambda s: NET.sleep(s))
for _m in (courier_utils, courier_worker):
  _m.time = _clock

# ---- (a) registry ------------------------------------------------------------------------------------------------------
ADDR = ('a', 'b')
def _i(x):
  # WorkerRegistry.get answers the FLOAT default 0.0 for a never seen address; comparing a symbolic int with a float
  # sends CrossHair into its float models (never a crisp verdict) - the concrete 0.0 is compared as the int 0.
  return 0 if type(x) is float and x == 0.0 else x
def reg_sequence(codes, times, naddr):
  """codes[i] in [0, 3*naddr): op = code % 3 (0 register, 1 refresh, 2 unregister), address = ADDR[code // 3].
  Checks after every step: dead-stays-dead, refresh is monotone, unknown address -> default. Traced."""
  reg = courier_utils.WorkerRegistry()
  dead = [False] * naddr
  for code, t in zip(codes, times):
    op = 0; ai = 0
    for c in range(3 * naddr):            # concrete op / address from the symbolic code (forks)
      if code == c:
        op = c % 3; ai = c // 3
    x = ADDR[ai]
    before = [_i(reg.get(y)) for y in ADDR[:naddr]]
    if op == 0: reg.register(x, t); dead[ai] = False
    elif op == 1: reg.refresh(x, t)
    else: reg.unregister(x); dead[ai] = True
    for j in range(naddr):
      y = ADDR[j]
      after = _i(reg.get(y))
      if dead[j] and after != 0: return False                       # a dead address reads 0 until it is registered again
      if op == 1 and not (after >= before[j]): return False         # refresh never moves a recorded heartbeat backwards
      if op == 1 and not dead[ai] and j == ai and not (after >= t): return False   # ... and records a newer one
    if reg.get('never-seen') != 0: return False
  return True

# ---- (b) liveness ------------------------------------------------------------------------------------------------------
def liveness(cls, state, last, pend, tp, now, thr, twice):
  """state: 'none' | 'reg' | 'dead'; pend: None | 'ok' | 'error' | 'cancel' | 'pending' | 'deadline' (one call sent at tp).
  Returns (is_alive, expected_alive, recorded_after, expected_recorded)."""
  NET.reset([pend] if pend else [])
  c = cls('a', heartbeat_threshold_secs=thr)       # clock is 0 here: __str__ of the singleton log line stays concrete
  reg = courier_utils.worker_registry()
  if state == 'reg': reg.register('a', last)
  elif state == 'dead': reg.register('a', last); reg.unregister('a')
  else: last = 0
  if pend:
    NET.now = tp
    c.call(1)
  NET.now = now
  alive = c.is_alive
  if twice:                                        # the probe is_alive may have sent is answered: ask again
    alive = c.is_alive
  exp_last = last
  if state == 'dead': exp_last = 0
  elif pend == 'ok' and tp > last: exp_last = tp
  if twice and state != 'dead' and not (now - exp_last < thr):
    exp_last = now if now > exp_last else exp_last  # first is_alive was False -> probe sent at `now`, answered, folded in
  return alive, (now - exp_last < thr), reg.get('a'), exp_last

def _concretize(x, lo, hi):
  """traced: symbolic int in [lo, hi] -> the concrete int (forks once per value)."""
  k = lo
  while k < hi:
    if x == k: return k
    k += 1
  return hi

def liveness_small(cls, state, pend, now, thr, twice, lo, hi):
  """never-seen address without a successful pending call: the recorded heartbeat is the FLOAT default 0.0 of
  WorkerRegistry.get, float arithmetic has no crisp solver model -> `now` and `thr` are enumerated over a small range
  (one path per value pair) and the library runs on concrete numbers, untraced."""
  with _NoTracing():
    with _ResumedTracing():
      n = _concretize(now, lo, 2 * hi); t = _concretize(thr, lo, hi)
    alive, exp_alive, rec, exp_rec = liveness(cls, state, 0, pend, 0, n, t, twice)
    return alive == exp_alive and rec == exp_rec

# ---- (c) ownership -----------------------------------------------------------------------------------------------------
def _decide(o, n):
  """traced: symbolic op code -> concrete int in [0, n)."""
  k = 0
  while k < n - 1:
    if o == k: return k
    k += 1
  return n - 1

STATS = {}
OPS = ('acq_all', 'rel_all', 'next_idle', 'acq_w0', 'acq_w1', 'rel_w0', 'acq_one')    # x 2 pools
def own_setup(dead0):
  NET.reset()
  NET.now = 1000
  reg = courier_utils.worker_registry()
  reg.register('w0', 1000); reg.register('w1', 1000)
  if dead0: reg.unregister('w0')          # pronounced dead: no probe answer can revive it
  A = courier_worker.WorkerPool(['w0', 'w1'], heartbeat_threshold_secs=100)
  B = courier_worker.WorkerPool(['w0', 'w1'], heartbeat_threshold_secs=100)
  return A, B

def _owners(pools, ws):
  return [[w.is_locked(p) for p in pools] for w in ws]

def own_sequence(codes, first, dead0, nops):
  """first: concrete code of step 0 or None; codes: symbolic codes of the remaining steps. Untraced except _decide."""
  with _NoTracing():
    with _ResumedTracing():
      d0 = True if dead0 else False
    A, B = own_setup(d0)
    STATS['refused'] = STATS['idle_none'] = 0
    pools = (A, B); ws = A.all_workers
    if not (ws[0] is B.all_workers[0] and ws[1] is B.all_workers[1]): return _say('pools do not share the worker singletons', None)
    steps = ([first] if first is not None else [])
    for o in codes:
      with _ResumedTracing():
        steps.append(_decide(o, 2 * nops))
    for code in steps:
      pi, op = code % 2, OPS[code // 2]
      P, Q = pools[pi], pools[1 - pi]
      before = _owners(pools, ws)
      ret = None
      if op == 'acq_all': ret = P._acquire_all()
      elif op == 'acq_one': ret = P._acquire_all(num_workers=1)
      elif op == 'rel_all': P.release_all()
      elif op == 'rel_w0': P.release_all([ws[0]])
      elif op == 'next_idle': ret = P.next_idle_worker(maybe_acquire=True)
      elif op == 'acq_w0': ret = ws[0].acquire_by(P)
      elif op == 'acq_w1': ret = ws[1].acquire_by(P)
      after = _owners(pools, ws)
      info = (steps, code, before, after)
      for i, w in enumerate(ws):
        if after[i][0] and after[i][1]: return _say('two pools own one worker', info)
        if w.is_locked() and not (after[i][0] or after[i][1]): return _say('locked worker without an owning pool', info)
        if before[i][1 - pi] and not after[i][1 - pi]: return _say('operation of one pool took / released a worker of the other pool', info)
        if not before[i][pi] and after[i][pi] and before[i][1 - pi]: return _say('stolen', info)
      if [w for w in A.acquired_workers if any(w is v for v in B.acquired_workers)]: return _say('acquired_workers not disjoint', info)
      if op == 'rel_all' and P.acquired_workers: return _say('workers acquired after release_all', info)
      if op == 'rel_w0' and after[0][pi]: return _say('w0 acquired after release_all([w0])', info)
      if op in ('acq_all', 'acq_one'):
        if any(not w.is_locked(P) for w in ret): return _say('_acquire_all returned a worker the pool does not own', info)
      if op in ('acq_w0', 'acq_w1'):
        i = 0 if op == 'acq_w0' else 1
        if ret != after[i][pi] or ret != (not before[i][1 - pi]): return _say('acquire_by result inconsistent with ownership', info)
        if not ret: STATS['refused'] += 1
      if op == 'next_idle' and ret is None: STATS['idle_none'] += 1
      if op == 'next_idle' and ret is not None and not (ret.is_locked(P) and ret.is_alive): return _say('next_idle_worker returned a worker that is not owned / not alive', info)
    return True

def pool_op(opname, fates, other_owns_w1):
  """Pool level operations: whatever they do, when they return or raise none of the pool's workers remains acquired and a
  worker of another pool is untouched. Returns (raised, acquired addresses, other pool still owns w1)."""
  with _NoTracing():
    A, B = own_setup(False)
    if other_owns_w1: B.all_workers[1].acquire_by(B)
    NET.script = list(fates)
    err = None
    try:
      if opname == 'call_and_wait': A.call_and_wait(1)
      else: A.run(lazy_fns.trace(len)([1, 2]))
    except Exception as e:
      err = e
    return err, [w.address for w in A.acquired_workers], B.all_workers[1].is_locked(B)

_SAID = set()
def _say(what, info):
  if not _VF_SYMBOLIC and what not in _SAID:
    _SAID.add(what); print('VF-C20 clause failed:', what, info)
  return False

FATES = ('ok', 'error', 'deadline')
def pool_op_check(opname, f0, f1, other, on_raise):
  with _NoTracing():
    with _ResumedTracing():
      fates = [FATES[_decide(f0, 3)], FATES[_decide(f1, 3)]]
      oth = True if other else False
    err, acquired, b_owns = pool_op(opname, fates, oth)
    if oth and not b_owns: return _say('worker of the other pool was released', (opname, fates, repr(err)))
    if (err is not None) != on_raise: return True
    if acquired: return _say('workers left acquired after %s %s' % (opname, 'raised' if on_raise else 'returned'), (fates, repr(err), acquired))
    return True
'''

# checks/c20.py runs run_into() only when READY is true. The module is complete; it stays False until the owner has decided
# what to do with the one obligation that is refuted on the unchanged tree (ob_run_released_on_raise, RUN_RAISE_SIGNATURE):
# fix WorkerPool.run, record a known finding, or call run_into(rep, tier, include_raise=False).
READY = True

ENCODED = [
    'ml_metrics._src.utils.courier_utils.WorkerRegistry.get',
    'ml_metrics._src.utils.courier_utils.WorkerRegistry.refresh',
    'ml_metrics._src.utils.courier_utils.WorkerRegistry.register',
    'ml_metrics._src.utils.courier_utils.WorkerRegistry.unregister',
    'ml_metrics._src.utils.courier_utils.CourierClient.__init__',
    'ml_metrics._src.utils.courier_utils.CourierClient.is_alive',
    'ml_metrics._src.utils.courier_utils.CourierClient._is_heartbeat_fresh',
    'ml_metrics._src.utils.courier_utils.CourierClient._check_heartbeat',
    'ml_metrics._src.utils.courier_utils.CourierClient._last_heartbeat',
    'ml_metrics._src.utils.courier_utils.CourierClient.call',
    'ml_metrics._src.utils.courier_utils.CourierClient.submit',
    'ml_metrics._src.utils.courier_utils._is_heartbeat_stale',
    'ml_metrics._src.utils.func_utils.SingletonMeta.__call__',
    'ml_metrics._src.chainables.courier_worker.Worker.acquire_by',
    'ml_metrics._src.chainables.courier_worker.Worker.release',
    'ml_metrics._src.chainables.courier_worker.Worker.is_available',
    'ml_metrics._src.chainables.courier_worker.Worker.is_locked',
    'ml_metrics._src.chainables.courier_worker.WorkerPool.__init__',
    'ml_metrics._src.chainables.courier_worker.WorkerPool._acquire_all',
    'ml_metrics._src.chainables.courier_worker.WorkerPool.release_all',
    'ml_metrics._src.chainables.courier_worker.WorkerPool.acquired_workers',
    'ml_metrics._src.chainables.courier_worker.WorkerPool.next_idle_worker',
    'ml_metrics._src.chainables.courier_worker.WorkerPool.call_and_wait',
    'ml_metrics._src.chainables.courier_worker.WorkerPool.run',
    'ml_metrics._src.chainables.courier_worker.WorkerPool.wait_until_alive',
]

OUTSIDE = [
    'threads: every law here is a single-thread history (interleavings inside refresh / acquire_by / release / release_all are '
    'the engine-B part of C20; e.g. a refresh whose critical section is split, or a release that frees the lock outside '
    '_states_lock, cannot be seen sequentially)',
    'register() with an older time moves the recorded heartbeat backwards (assignment by design: the server side heartbeat '
    'is authoritative); monotonicity is claimed for refresh only',
    'pools built with different worker configurations get different Worker singletons for the same address (SingletonMeta '
    'keys on the whole config): "one owner per worker" is per Worker object',
    'real heartbeat RPCs / CourierServer._notify_alive threads; floats as times (ints are used; CrossHair has no crisp float model)',
    'as_completed (its release behaviour is part of the C06 task-path harness, checks/c06_seq.py)',
]

ASSUME = [
    'fake `courier` module injected through sys.modules; Client.futures.<method>() returns a real concurrent.futures.Future '
    'with a scripted fate (ok / application error / deadline-exceeded / cancelled / pending)',
    '`time` in courier_utils / courier_worker replaced by a settable clock (time() returns the symbolic `now`)',
    'the clock epoch is far above the threshold (pre: now >= threshold): a dead or never seen address reads heartbeat 0, '
    'which is "not alive" only then (time.time() ~ 1.7e9 in reality)',
    'times and thresholds are ints; absl logging replaced by a no-op; SingletonMeta instance table and the process wide '
    'worker registry are cleared at the start of every path',
    'part (c): op codes are made concrete by a traced decision, the library then runs untraced on concrete data',
]

# pool-level operation that leaves a worker acquired when it raises (WorkerPool.run has no try/finally around
# `worker.submit(task).result()`): expected to be refuted on the unchanged tree - owner decides (fix / known finding).
RUN_RAISE_SIGNATURE = 'WorkerPool.run-raise-leaves-worker-acquired'


def classify(name, call):
  if name.startswith('ob_run_released_on_raise'):
    return RUN_RAISE_SIGNATURE
  return name


def _p(tier):
  if tier == 'quick':
    return dict(reg=[(4, 1, 0), (4, 2, 2)], own_len=4, own_split=True, nops=5, tmax=1000, small=6)
  return dict(reg=[(4, 1, 0), (4, 2, 1), (5, 2, 2)], own_len=4, own_split=True, nops=7, tmax=10 ** 9, small=12)


def bounds(tier):
  p = _p(tier)
  return dict(registry_sequences=[dict(length=l, addresses=a, leading_ops_enumerated=s) for l, a, s in p['reg']],
              times=f'ints in [0, {p["tmax"]}], '
              f'now/threshold enumerated in [1, {2 * p["small"]}] where the float default 0.0 of WorkerRegistry.get takes part', liveness='state in {never seen, registered(last), unregistered}, one pending call '
              'in {none, ok, error, cancelled, deadline, still pending} sent at symbolic tp, symbolic now / threshold; CourierClient and Worker',
              ownership=dict(pools=2, workers=2, sequence_length=p['own_len'], ops=[o for o in
                             ('acq_all', 'rel_all', 'next_idle', 'acq_w0', 'acq_w1', 'rel_w0', 'acq_one')[:p['nops']]],
                             note='op code = 2 * op + pool, symbolic per step; w0 alive or not (symbolic)'),
              pool_ops='call_and_wait / run with symbolic fates (ok, error, deadline) of the two calls, other pool owning w1 or not')


BOUNDS = {'quick': bounds('quick'), 'thorough': bounds('thorough')}


def gen(tier):
  from vf import xh
  F = xh.fn
  p = _p(tier)
  T = p['tmax']
  s = [PRELUDE]
  A = s.append
  # ---- (a) -------------------------------------------------------------------------------------------------------------
  import itertools
  for L, na, split in p['reg']:
    # `split` leading operations are enumerated here (parallel obligations); the first one w.l.o.g. on address 'a'
    heads = [h for h in itertools.product(range(3 * na), repeat=split) if not h or h[0] < 3]
    for head in heads:
      n_sym = L - len(head)
      params = ', '.join([f'c{i}: int' for i in range(n_sym)] + [f't{i}: int' for i in range(L)])
      pre = [f'0 <= c{i} < {3 * na}' for i in range(n_sym)] + [f'0 <= t{i} <= {T}' for i in range(L)]
      codes = [str(h) for h in head] + [f'c{i}' for i in range(n_sym)]
      name = f'ob_registry_len{L}_addr{na}' + (('_first' + ''.join(str(h) for h in head)) if head else '')
      A(F(name, params, pre, f"return reg_sequence([{', '.join(codes)}], [{', '.join(f't{i}' for i in range(L))}], {na})"))
  A(F('ob_registry_get_default', 't0: int, d: int', [f'0 <= t0 <= {T}', f'-{T} <= d <= {T}'], """
      reg = courier_utils.WorkerRegistry()
      reg.register('a', t0); reg.unregister('b')
      return reg.get('zz', d) == d and reg.get('zz') == 0 and reg.get('b', d) == 0 and reg.get('a', d) == t0"""))
  A(F('wit_registry_register_revives', 't0: int, t1: int', [f'0 <= t0 <= {T}', f'0 <= t1 <= {T}'], """
      reg = courier_utils.WorkerRegistry()
      reg.register('a', t0); reg.unregister('a'); reg.refresh('a', t1)
      z = reg.get('a')
      reg.register('a', t1)
      return not (z == 0 and reg.get('a') == t1 and t1 > 0)"""))
  A(F('wit_registry_refresh_advances', 't0: int, t1: int', [f'0 <= t0 <= {T}', f'0 <= t1 <= {T}'], """
      reg = courier_utils.WorkerRegistry()
      reg.register('a', t0); reg.refresh('a', t1)
      return not (reg.get('a') == t1 and t1 > t0)"""))
  A(F('wit_registry_register_moves_back', 't0: int, t1: int', [f'0 <= t0 <= {T}', f'0 <= t1 <= {T}'], """
      reg = courier_utils.WorkerRegistry()
      reg.refresh('a', t0); reg.register('a', t1)
      return not (reg.get('a') < t0)"""))
  # ---- (b) -------------------------------------------------------------------------------------------------------------
  params = 'last: int, tp: int, now: int, thr: int'
  pre = [f'0 <= last <= {T}', f'0 <= tp <= {T}', f'1 <= thr <= {T}', f'thr <= now <= {2 * T}']
  SM = p['small']
  variants = [('courier_utils.CourierClient', st, pd, tw) for st in ('none', 'reg', 'dead')
              for pd in (None, 'ok', 'error', 'cancel', 'pending', 'deadline') for tw in (False, True)
              if tier != 'quick' or not (tw and pd in ('error', 'cancel', 'deadline'))]
  variants += [('courier_worker.Worker', 'reg', 'ok', False), ('courier_worker.Worker', 'dead', 'ok', True)]
  for cls, st, pd, tw in variants:
    name = f"ob_alive_{cls.split('.')[-1]}_{st}_pend_{pd or 'none'}" + ('_twice' if tw else '')
    if st == 'none' and pd != 'ok':
      A(F(name + '_smallrange', 'now: int, thr: int', [f'1 <= thr <= {SM}', f'thr <= now <= {2 * SM}'],
          f"return liveness_small({cls}, {st!r}, {pd!r}, now, thr, {tw}, 1, {SM})"))
      continue
    A(F(name, params, pre, f"""
      alive, exp_alive, rec, exp_rec = liveness({cls}, {st!r}, last, {pd!r}, tp, now, thr, {tw})
      return alive == exp_alive and rec == exp_rec"""))
  A(F('ob_dead_never_alive', params + ', k: int', pre + ['0 <= k <= 3'], """
      # unregistered address: whatever finishes (call sent at tp: ok) and however often it is asked, it is not alive
      NET.reset(['ok'])
      c = courier_utils.CourierClient('a', heartbeat_threshold_secs=thr)
      reg = courier_utils.worker_registry()
      reg.register('a', last); reg.unregister('a')
      NET.now = tp
      c.call(1)
      NET.now = now
      ok = True
      for i in range(3):
        if i < k:
          ok = ok and not c.is_alive and reg.get('a') == 0
      return ok"""))
  A(F('wit_alive_by_pending', params, pre, """
      alive, exp_alive, rec, exp_rec = liveness(courier_utils.CourierClient, 'reg', last, 'ok', tp, now, thr, False)
      return not (alive and not (now - last < thr))"""))
  A(F('wit_not_alive', params, pre, """
      alive, exp_alive, rec, exp_rec = liveness(courier_utils.CourierClient, 'reg', last, None, tp, now, thr, False)
      return not (not alive and last > 0)"""))
  A(F('wit_alive_after_probe', params, pre, """
      alive, exp_alive, rec, exp_rec = liveness(courier_utils.CourierClient, 'reg', last, None, tp, now, thr, True)
      return not (alive and not (now - last < thr))"""))
  # ---- (c) -------------------------------------------------------------------------------------------------------------
  L, nops = p['own_len'], p['nops']
  firsts = range(0, 2 * nops, 2) if p['own_split'] else [None]       # w.l.o.g. the first operation is pool A's (symmetry)
  for first in firsts:
    n_sym = L - (first is not None)
    params = ', '.join([f'c{i}: int' for i in range(n_sym)] + ['dead0: bool'])
    pre = [f'0 <= c{i} < {2 * nops}' for i in range(n_sym)]
    name = f'ob_ownership_len{L}' + (f'_first_{("acq_all", "rel_all", "next_idle", "acq_w0", "acq_w1", "rel_w0", "acq_one")[first // 2]}' if first is not None else '')
    A(F(name, params, pre, f"return own_sequence([{', '.join(f'c{i}' for i in range(n_sym))}], {first}, dead0, {nops})"))
  A(F('wit_ownership_contention', 'c0: int, c1: int', ['0 <= c0 < 10', '0 <= c1 < 10'], """
      # some 2-step history in which a pool is refused a worker the other pool holds
      ok = own_sequence([c0, c1], None, False, 5)
      return not (ok and STATS['refused'] > 0)"""))
  A(F('wit_ownership_dead_worker_not_handed_out', 'c0: int, c1: int, dead0: bool', ['0 <= c0 < 10', '0 <= c1 < 10'], """
      ok = own_sequence([c0, c1], None, dead0, 5)
      return not (ok and STATS['idle_none'] > 0)"""))
  for op in ('call_and_wait', 'run'):
    for on_raise in (False, True):
      A(F(f"ob_{op}_released_on_{'raise' if on_raise else 'return'}", 'f0: int, f1: int, other: bool', ['0 <= f0 <= 2', '0 <= f1 <= 2'],
          f"return pool_op_check({op!r}, f0, f1, other, {on_raise})"))
  A(F('wit_run_raises', 'f0: int', ['0 <= f0 <= 2'], """
      with _NoTracing():
        with _ResumedTracing():
          fate = FATES[_decide(f0, 3)]
        err, acquired, b = pool_op('run', [fate], False)
        return not isinstance(err, AppError)"""))
  A(F('wit_call_and_wait_raises', 'f0: int', ['0 <= f0 <= 2'], """
      with _NoTracing():
        with _ResumedTracing():
          fate = FATES[_decide(f0, 3)]
        err, acquired, b = pool_op('call_and_wait', [fate, 'ok'], True)
        return not (isinstance(err, AppError) and b)"""))
  return '\n'.join(s)


def resolve(dotted):
  """dotted name -> object (properties stay property objects so that common.src_ref can unwrap them)."""
  import importlib, inspect
  parts = dotted.split('.')
  for i in range(len(parts), 0, -1):
    try:
      obj = importlib.import_module('.'.join(parts[:i]))
      break
    except ImportError:
      continue
  for part in parts[i:]:
    obj = inspect.getattr_static(obj, part) if isinstance(obj, type) else getattr(obj, part)
  return obj


def run_into(rep, tier, only=None, include_raise=True):
  """Adds the sequential part to a Report owned by checks/c20.py. include_raise=False leaves out ob_run_released_on_raise
  (refuted on the unchanged tree: WorkerPool.run leaves its worker acquired when the task raises, RUN_RAISE_SIGNATURE)."""
  from vf import xh
  for dotted in ENCODED:
    rep.encoded(resolve(dotted))
  rep.bounds(seq=bounds(tier))
  rep.outside(*OUTSIDE)
  rep.assume(*ASSUME)
  o = os.environ.get('VF_ONLY')
  def sel(n):
    if not include_raise and n.startswith('ob_run_released_on_raise'): return False
    if only is not None and not only(n): return False
    return o in n if o and o != 'seq' else True
  return xh.run_module(rep, gen(tier), 'c20seq_h', 300 if tier == 'quick' else 1800, classify=classify, only=sel)


def replay(data):
  from vf import xh
  return xh.replay_file(data)


def main(argv=None):
  """python -m checks.c20_seq [quick|thorough]: imports the generated harness in plain python and calls every ob_/wit_
  function on a few hundred random argument vectors within the `pre` ranges (smoke test, no solver)."""
  argv = list(sys.argv[1:] if argv is None else argv)
  tier = argv[0] if argv else 'quick'
  sys.path.insert(0, os.path.dirname(os.path.dirname(os.path.abspath(__file__))))
  from vf import common, xh
  sys.path.insert(0, common.REPO)
  os.makedirs(common.WORK, exist_ok=True)
  path = os.path.join(common.WORK, 'c20_seq_dbg.py')
  with open(path, 'w') as f:
    f.write(xh.HEADER + gen(tier))
  import importlib.util, inspect, random, re
  spec = importlib.util.spec_from_file_location('c20_seq_dbg', path)
  m = importlib.util.module_from_spec(spec); sys.modules['c20_seq_dbg'] = m; spec.loader.exec_module(m)
  rnd = random.Random(0)
  bad = 0
  for name, _ in xh.functions(open(path).read()):
    if len(argv) > 1 and argv[1] not in name: continue
    fn = getattr(m, name)
    sig = inspect.signature(fn)
    pres = re.findall(r'pre: (.*)', fn.__doc__)
    fails = hits = tried = 0
    for _ in range(20000):
      if hits >= 300: break
      args = {}
      for pn, pp in sig.parameters.items():
        if pp.annotation in (bool, 'bool'): args[pn] = rnd.random() < 0.5
        else: args[pn] = rnd.choice([0, 1, 2, 3, 5, rnd.randint(0, 12), rnd.randint(0, 2000)])
      if not all(eval(q, dict(args)) for q in pres): continue   # pylint: disable=eval-used
      hits += 1
      r = fn(**args)
      if name.startswith('ob_') and not r:
        fails += 1
        if fails == 1: print('  FAIL', name, args)
      if name.startswith('wit_') and not r: tried += 1
    status = ('ok' if not fails else 'FAILS') if name.startswith('ob_') else ('witnessed' if tried else 'NOT-witnessed')
    if status in ('FAILS', 'NOT-witnessed'): bad += 1
    print(f'{name}: samples={hits} {status}')
  return 1 if bad else 0


if __name__ == '__main__':
  sys.exit(main())
