"""C06 (task path) - harness generator: the real orchestrate.as_completed on a fake courier transport with a
SYMBOLIC fault schedule (engine A, CrossHair).

Not a check module (checks/c06.py owns the Report); this module only delivers
  gen(tier) -> harness source for vf.xh.run_module
  ENCODED / BOUNDS / OUTSIDE / ASSUME / FINDING_OBLIGATIONS / classify(name, call)
  main()   -> `python -m checks.c06_seq [quick|thorough]`: plain-python exhaustive enumeration of the same scenarios
              (depth-first over the decisions the transport asks for) - a cross-check and a debugging aid.

What is symbolic: the outcome of the i-th remote task call of each worker, o[w][i] in {0 ok, 1 deadline-exceeded
(exception with .code == 4, what courier_worker.is_timeout looks at), 2 application error (ValueError subclass),
3 host dies: this call and every later call to the host never answer, its heartbeat stops}; thorough adds
4 = host dies and rejoins after `rejoin` scheduler quanta (in-flight calls stay lost). At most `faults` non-ok outcomes
are consumed per run (later calls are ok). Everything else is enumerated by the generator: number of tasks,
ignore_failures, max_parallelism, per-worker call latency (in scheduler quanta), call_timeout, clock tick.

Obligation families (one function per configuration):
  ob_delivery_*               no result twice / invented; a normal return never misses a result; while one worker never died:
                              every result exactly once, or - application error and not ignore_failures - that exception
  ob_no_flip_select_submit_*  (call_timeout > 0, ticking clock) a worker handed out as alive is not declared unreachable by the
                              submit that follows while another worker never died
  ob_released_on_return_*     generator returned  -> pool.acquired_workers == []
  ob_released_on_raise_*      generator raised    -> pool.acquired_workers == []   (refuted on the unchanged tree, see
                              RAISE_SIGNATURE / run_into(include_raise=False))
  wit_*                       vacuity witnesses (retry after deadline, after death, application error, everybody dead, ...)

Tracing discipline: the ONLY symbolic values are the outcome ints; they are looked at in `_decide` (traced, forks the
CrossHair path) and turned into a concrete small int. The library runs on concrete data, therefore with opcode tracing
switched off (crosshair.tracers.NoTracing) - the same real code, ~1000x faster. "Confirmed over all paths" = every
fault schedule within the bounds was executed on the real as_completed.
"""
import os
import sys

PRELUDE = r'''
import sys as _sys, types as _types
from concurrent import futures as _cf

# ---- fake `courier` transport (the installed `courier` distribution is an unrelated package) -------------------------
class DeadlineExceeded(Exception):
  code = 4                      # absl::StatusCode::kDeadlineExceeded - what courier_worker.is_timeout() recognises
class AppError(ValueError):
  pass
class LoopBound(BaseException):   # never swallowed by `except Exception` in the library
  pass

class _Futures:
  def __init__(self, client): self._c = client
  def __getattr__(self, method):
    c = self._c
    return lambda *a, **k: NET.call(c, method, a, k)
class Client:
  def __init__(self, address, call_timeout=None):
    self.address = address; self.call_timeout = call_timeout; self.futures = _Futures(self)
class Server:
  def __init__(self, *a, **k): raise RuntimeError('no courier server in this harness')
_fake = _types.ModuleType('courier'); _fake.Client = Client; _fake.Server = Server
_sys.modules['courier'] = _fake

from ml_metrics._src.utils import courier_utils, func_utils
from ml_metrics._src.chainables import courier_worker, orchestrate, lazy_fns
for _m in (courier_utils, courier_worker, orchestrate, func_utils, lazy_fns):
  if hasattr(_m, 'logging'): _m.logging = _VfNoLog()       # log formatting is not the subject (symbolic and replay alike)

if _VF_SYMBOLIC:
  from crosshair.tracers import NoTracing as _NoTracing, ResumedTracing as _ResumedTracing
else:
  import contextlib as _ctx
  _NoTracing = _ResumedTracing = _ctx.nullcontext

OK, DEADLINE, ERROR, DIE, DIE_REJOIN = 0, 1, 2, 3, 4

def _decide(o, hi):
  """traced: turns the (symbolic) outcome code into a concrete int; each comparison forks the CrossHair path."""
  k = 0
  while k < hi:
    if o == k: return k
    k += 1
  return hi

class Net:
  """Virtual clock + transport + hosts. One scheduler quantum = one time.sleep() call of the library."""
  STEP = 20                     # virtual seconds per sleep() (any argument); time() itself advances `tick` s
  T0 = 1000
  def reset(self, addrs, sched, latency, faults, bound, kinds, rejoin, tick):
    self.now = self.T0; self.sleeps = 0; self.bound = bound; self.tick = tick
    self.selected = []          # (address, heartbeat age when next_idle_worker handed it out)
    self.addrs = list(addrs); self.sched = sched; self.latency = latency
    self.budget = faults; self.kinds = kinds; self.rejoin = rejoin
    self.ncalls = {a: 0 for a in addrs}
    self.dead = {}              # address -> quantum at which it rejoins (None = never)
    self.ever_dead = set()
    self.inflight = []          # [due_quantum, future, address, kind (DIE = answer lost), pickled value, deadline_time, log_entry]
    self.log = []               # [address, i, kind, value, delivered]
    self.chooser = None         # plain-python enumeration (main()); None = use sched
    courier_utils.worker_registry().data.clear()
    func_utils.SingletonMeta._instances.clear()
  # -- clock ---------------------------------------------------------------------
  def time(self):
    self.now += self.tick
    return self.now
  def sleep(self, s):
    self.sleeps += 1
    if self.sleeps > self.bound: raise LoopBound()
    self.now += max(s, self.STEP)
    for a in list(self.dead):
      if self.dead[a] is not None and self.sleeps >= self.dead[a]: del self.dead[a]     # host restarted
    for a in self.addrs:        # server side heartbeat of every live host (CourierServer._notify_alive -> _heartbeat -> register)
      if a not in self.dead: courier_utils.worker_registry().register(a, self.now)
    still = []
    for rec in self.inflight:
      due, f, a, kind, value, deadline, entry = rec
      if f.done(): continue     # the library gave up on it (set_exception) or it was cancelled
      if kind != DIE and self.sleeps >= due:
        self._complete(f, kind, value, entry)
      elif deadline is not None and self.now >= deadline:
        f.set_exception(DeadlineExceeded('deadline exceeded'))
      else:
        still.append(rec)
    self.inflight = still
  def _complete(self, f, kind, value, entry):
    entry[4] = True
    if kind == OK: f.set_result(value)
    elif kind == DEADLINE: f.set_exception(DeadlineExceeded('deadline exceeded'))
    else: f.set_exception(AppError('application error'))
  # -- transport -------------------------------------------------------------------
  def _outcome(self, a, i):
    if self.budget <= 0: return OK
    if self.chooser is not None:
      k = self.chooser.next(self.kinds)
    else:
      row = self.sched[self.addrs.index(a)]
      if i >= len(row): return OK
      with _ResumedTracing():
        k = _decide(row[i], self.kinds - 1)
    if k != OK: self.budget -= 1
    return k
  def call(self, client, method, a, k):
    f = _cf.Future(); addr = client.address
    deadline = self.now + client.call_timeout if client.call_timeout else None
    if method == 'heartbeat':
      if addr in self.dead: self.inflight.append([0, f, addr, DIE, None, deadline, [addr, -1, DIE, None, False]])
      else: f.set_result(None)
      return f
    assert method == 'maybe_make', method
    i = self.ncalls[addr]; self.ncalls[addr] = i + 1
    value = lazy_fns.maybe_make(lazy_fns.maybe_unpickle(a[0]))     # what CourierServer._maybe_make computes
    if addr in self.dead: kind = DIE
    else:
      kind = self._outcome(addr, i)
      if kind in (DIE, DIE_REJOIN):
        self.dead[addr] = self.sleeps + self.rejoin if kind == DIE_REJOIN else None
        self.ever_dead.add(addr)
        for rec in self.inflight:                                    # answers of calls in flight to this host are lost
          if rec[2] == addr: rec[3] = DIE
        kind = DIE
    entry = [addr, i, kind, value, False]
    self.log.append(entry)
    rec = [self.sleeps + self.latency[self.addrs.index(addr)], f, addr, kind, lazy_fns.pickler.dumps(value), deadline, entry]
    if kind != DIE and self.sleeps >= rec[0]: self._complete(f, kind, rec[4], entry)
    else: self.inflight.append(rec)
    return f

NET = Net()
_clock = _types.SimpleNamespace(time=lambda: NET.time(), sleep=lambda s: NET.sleep(s))
for _m in (courier_utils, courier_worker, orchestrate):
  _m.time = _clock
def _by_address(ws): return sorted(ws, key=lambda w: w.address)
def _shuffle(x): x.sort(key=lambda w: w.address)
def _sample(population, k):
  population = _by_address(population)
  if not 0 <= k <= len(population): raise ValueError('Sample larger than population or is negative')   # as random.sample
  return population[:k]
orchestrate.random = _types.SimpleNamespace(shuffle=_shuffle, sample=_sample)

def _work(i): return 10 * i + 1

ADDRS = ('w0', 'w1')

THRESHOLD = 61

class ObservedPool(courier_worker.WorkerPool):
  """The real pool; only records how old the heartbeat of the worker was that next_idle_worker handed out."""
  def next_idle_worker(self, workers=None, *, maybe_acquire=False):
    w = super().next_idle_worker(workers, maybe_acquire=maybe_acquire)
    if w is not None:
      NET.selected.append((w.address, NET.now - courier_utils.worker_registry().get(w.address)))
    return w

def scenario(sched, n, ign, par, lat, ct, faults, bound, kinds, rejoin, tick, flip_apart=True):
  """Runs the real as_completed once. Returns a dict of concrete observations."""
  NET.reset(ADDRS, sched, lat, faults, bound, kinds, rejoin, tick)
  pool = ObservedPool(list(ADDRS), call_timeout=ct, max_parallelism=par, heartbeat_threshold_secs=THRESHOLD)
  pool.wait_until_alive()
  tasks = [lazy_fns.trace(_work)(i) for i in range(n)]
  out, err = [], None
  try:
    for r in orchestrate.as_completed(pool, iter(tasks), ignore_failures=ign):
      out.append(r)
  except Exception as e:
    err = e
  exp = [_work(i) for i in range(n)]
  failed = sorted(e[3] for e in NET.log if e[2] == ERROR and e[4])
  # as_completed raised out of Worker.submit -> wait_until_alive although the worker was alive when it was selected and
  # another worker never died
  flip = (type(err) is RuntimeError and 'Failed to connect to worker' in str(err) and bool(NET.selected)
          and NET.selected[-1][1] < THRESHOLD and any(a not in NET.ever_dead for a in ADDRS))
  return dict(out=out, err=err, exp=exp, failed=failed, flip=flip,
              never_died=[a for a in ADDRS if a not in NET.ever_dead],
              acquired=[w.address for w in pool.acquired_workers],
              locked=[w.address for w in pool.all_workers if w.is_locked()],
              log=[tuple(e[:5]) for e in NET.log], sleeps=NET.sleeps, selected=NET.selected[-3:])

def _run(kw, sched):
  try:
    return scenario(sched, **kw)
  except LoopBound:
    if _VF_SYMBOLIC:
      # bounded loop exceeded: this obligation must end WITHOUT a verdict (inconclusive), never "confirmed"
      _sys.stderr.write('VF-LOOPBOUND as_completed still running after %d scheduler quanta\n' % kw['bound'])
      _sys.stderr.flush()
      import os as _os2; _os2._exit(3)
    raise

def _say(what, obs):
  if not _VF_SYMBOLIC:
    print('VF-C06 clause failed:', what, {k: (repr(v) if k == 'err' else v) for k, v in obs.items()})
  return False

# ---- the obligations (oracle = the property text, evaluated on concrete observations) -----------------------------------
def check_delivery(kw, sched):
  with _NoTracing():
    o = _run(kw, sched)
    out, err, exp, failed = o['out'], o['err'], o['exp'], o['failed']
    if o['flip'] and kw['flip_apart']: return True     # stated separately: check_no_flip
    # never doubled, never invented - under every schedule
    if len(set(out)) != len(out) or any(v not in exp for v in out): return _say('a result was yielded twice / is not a task result', o)
    want = sorted(set(exp) - set(failed)) if kw['ign'] else exp
    # a normal return never hides a missing result (non-retriable errors are dropped only under ignore_failures)
    if err is None and sorted(out) != want: return _say('generator returned normally but results are missing', o)
    if o['never_died']:
      # one worker stayed usable for the whole run (as_completed has no retry budget)
      if failed and not kw['ign']:
        if not isinstance(err, AppError): return _say('application error did not surface as that exception', o)
      elif err is not None or sorted(out) != want:
        return _say('one worker stayed usable but not every task result was delivered exactly once', o)
    return True

def check_no_flip(kw, sched):
  """A worker that next_idle_worker handed out as alive is not declared unreachable by the submit that follows
  (as_completed would then die with RuntimeError although the task could be retried / another worker is usable)."""
  with _NoTracing():
    o = _run(kw, sched)
    if o['flip']: return _say('worker selected alive, submit() -> wait_until_alive() raised out of as_completed', o)
    return True

def check_released(kw, sched, on_raise):
  with _NoTracing():
    o = _run(kw, sched)
    if (o['err'] is not None) != on_raise: return True
    if o['acquired']: return _say('workers left acquired after as_completed %s' % ('raised' if on_raise else 'returned'), o)
    return True

def witness(kw, sched, what):
  """True when the interesting situation happened (the wit_ function returns `not` of it)."""
  with _NoTracing():
    o = _run(kw, sched)
    kinds = [e[2] for e in o['log']]
    if what == 'retry_deadline': return DEADLINE in kinds and o['err'] is None and sorted(o['out']) == o['exp']
    if what == 'retry_death': return DIE in kinds and o['err'] is None and sorted(o['out']) == o['exp'] and bool(o['never_died'])
    if what == 'app_error': return isinstance(o['err'], AppError)
    if what == 'all_dead': return not o['never_died'] and o['err'] is not None
    if what == 'both_workers_used': return len({e[0] for e in o['log']}) == 2 and o['err'] is None
    if what == 'two_faults': return sum(1 for x in kinds if x != OK) >= 2 and o['err'] is None and sorted(o['out']) == o['exp']
    if what == 'ignored_failure': return bool(o['failed']) and o['err'] is None
    if what == 'rejoin': return any(a not in NET.dead for a in NET.ever_dead) and o['err'] is None and sorted(o['out']) == o['exp']
    raise AssertionError(what)

# ---- plain-python exhaustive enumeration of the decisions (python -m checks.c06_seq) ------------------------------------
class Chooser:
  def __init__(self, prefix): self.prefix = list(prefix); self.trace = []
  def next(self, kinds):
    k = self.prefix[len(self.trace)] if len(self.trace) < len(self.prefix) else 0
    self.trace.append((k, kinds))
    return k

def enumerate_schedules(kw):
  """Yields (decisions, observations | 'LOOPBOUND') for every decision sequence the transport can ask for."""
  prefix = []
  while True:
    ch = Chooser(prefix)
    orig_reset = NET.reset
    def reset(*a, **k):
      orig_reset(*a, **k); NET.chooser = ch
    NET.reset = reset
    try:
      try: obs = scenario(None, **kw)
      except LoopBound: obs = 'LOOPBOUND'
    finally:
      del NET.reset
    yield [k for k, _ in ch.trace], obs
    tr = ch.trace
    while tr and tr[-1][0] + 1 >= tr[-1][1]: tr.pop()
    if not tr: return
    prefix = [k for k, _ in tr[:-1]] + [tr[-1][0] + 1]
'''

# ---------------------------------------------------------------------------------------------------------------------------
ENCODED = [
    'ml_metrics._src.chainables.orchestrate.as_completed',
    'ml_metrics._src.chainables.courier_worker.WorkerPool.__init__',
    'ml_metrics._src.chainables.courier_worker.WorkerPool.wait_until_alive',
    'ml_metrics._src.chainables.courier_worker.WorkerPool.workers',
    'ml_metrics._src.chainables.courier_worker.WorkerPool.next_idle_worker',
    'ml_metrics._src.chainables.courier_worker.WorkerPool.acquired_workers',
    'ml_metrics._src.chainables.courier_worker.WorkerPool.release_all',
    'ml_metrics._src.chainables.courier_worker.Worker.acquire_by',
    'ml_metrics._src.chainables.courier_worker.Worker.release',
    'ml_metrics._src.chainables.courier_worker.Worker.is_locked',
    'ml_metrics._src.chainables.courier_worker.Worker.is_available',
    'ml_metrics._src.chainables.courier_worker.is_timeout',
    'ml_metrics._src.utils.courier_utils.CourierClient.submit',
    'ml_metrics._src.utils.courier_utils.CourierClient.call',
    'ml_metrics._src.utils.courier_utils.CourierClient.wait_until_alive',
    'ml_metrics._src.utils.courier_utils.CourierClient.is_alive',
    'ml_metrics._src.utils.courier_utils.CourierClient._is_heartbeat_fresh',
    'ml_metrics._src.utils.courier_utils.CourierClient._check_heartbeat',
    'ml_metrics._src.utils.courier_utils.CourierClient.has_capacity',
    'ml_metrics._src.utils.courier_utils.CourierClient.pendings',
    'ml_metrics._src.utils.courier_utils.Task.done',
    'ml_metrics._src.utils.courier_utils.Task.exception',
    'ml_metrics._src.utils.courier_utils.Task.result',
    'ml_metrics._src.utils.courier_utils.Task.is_alive',
    'ml_metrics._src.utils.courier_utils.Task.set',
    'ml_metrics._src.utils.courier_utils.WorkerRegistry.refresh',
    'ml_metrics._src.utils.courier_utils.WorkerRegistry.register',
    'ml_metrics._src.utils.courier_utils.WorkerRegistry.get',
]

OUTSIDE = [
    'shard / generator path: WorkerPool.iterate, CourierClient.async_iterate, orchestrate.sharded_pipelines_as_iterator, '
    '_async_run_single_stage (asyncio loop thread + coroutines + result thread over an RPC transport that is not installed): '
    'not encodable by engine A - "every shard state merged exactly once" and "every output batch at least once" are NOT claimed',
    'real courier RPC, pickling across processes, CourierServer threads (the transport is a single-threaded fake)',
    'a consumer that abandons the generator early (GeneratorExit): the property speaks about return / raise',
    'thread interleavings between the polling loop and transport callbacks (e.g. Future.set_exception racing a late answer)',
    'pools of more than 2 workers (random.sample(candidates, k) with k > len(candidates) needs >= 3 workers)',
    'a host that restarts BEFORE its death was noticed (heartbeat threshold) while a call without call_timeout is in flight: '
    'the lost call is never detected and as_completed polls forever (`python -m checks.c06_seq restart` hits the loop bound); '
    'with call_timeout=0 hosts only rejoin after 6 quanta (> threshold), with call_timeout=45 also after 2',
    'hosts whose every answer arrives after call_timeout (latency >= call_timeout): alive but never successful, as_completed '
    'has no retry budget and retries forever',
]

ASSUME = [
    'fake `courier` module injected through sys.modules: Client(address, call_timeout).futures.<method>(...) returns a real '
    'concurrent.futures.Future that the harness transport completes; the server side of maybe_make is '
    'lazy_fns.maybe_make(maybe_unpickle(arg)) pickled with lazy_fns.pickler (as CourierServer._maybe_make)',
    'virtual clock replaces `time` in courier_utils, courier_worker, orchestrate: time() advances 1 s, every sleep() is one '
    'scheduler quantum of 20 s; in-flight calls complete `latency` quanta after submission',
    'a live host pushes its heartbeat into worker_registry() (register) once per quantum, a dead host never does and never '
    'answers (task calls and heartbeat probes); heartbeat probes of dead hosts fail with DeadlineExceeded after the 30 s '
    'call_timeout of the heartbeat client; heartbeat_threshold_secs=61',
    'random.shuffle / random.sample in orchestrate replaced by deterministic stand-ins (order by address, first k; '
    'ValueError when k > len like the original)',
    'absl logging replaced by a no-op in the exercised modules',
    'library code runs with CrossHair opcode tracing switched off; only the outcome decisions are traced - sound because no '
    'symbolic value ever reaches library code (the outcome code is made concrete by the traced _decide before use)',
    'iteration order of the `preferred` set in as_completed follows str hashing (PYTHONHASHSEED=0 in run and replay)',
]

# obligations that state the clause "all workers are released afterwards" on the RAISE path; on the unchanged tree they are
# expected to be refuted (as_completed has no try/finally) - the owner of checks/c06.py decides fix vs. known finding.
RAISE_SIGNATURE = 'as_completed-raise-leaves-workers-acquired'
# thorough tier only (5 configurations, call_timeout=45, ticking clock): a dead-but-still-fresh worker is handed out by
# next_idle_worker, its heartbeat turns stale before Worker.submit -> wait_until_alive looks again, submit blocks for
# heartbeat_threshold_secs and raises RuntimeError('Failed to connect to worker ...') out of as_completed although the other
# worker never died. Time-of-check/time-of-use on the heartbeat age; owner decides.
FLIP_SIGNATURE = 'as_completed-liveness-flip-between-select-and-submit'


def classify(name, call):
  if name.startswith('ob_released_on_raise'):
    return RAISE_SIGNATURE
  if name.startswith('ob_no_flip_select_submit'):
    return FLIP_SIGNATURE
  return name


def _cfg(n, ign, par, lat, ct, tick=1, rejoin=6, faults=2):
  return dict(n=n, ign=ign, par=par, lat=lat, ct=ct, tick=tick, rejoin=rejoin, faults=faults)


def _configs(tier):
  """n tasks, ignore_failures, max_parallelism, (latency w0, latency w1) in quanta, call_timeout, seconds per time() call,
  quanta after which a host that died with outcome 4 rejoins, number of faults consumed per run.
  Latencies stay below call_timeout (a host whose every answer arrives after the deadline is not "usable")."""
  if tier == 'quick':
    cfg = []
    for n, par, lat, ct in ((3, 1, (1, 1), 0), (3, 2, (1, 2), 0), (3, 1, (0, 1), 45), (3, 2, (2, 1), 45), (3, 1, (0, 0), 0),
                            (2, 2, (1, 1), 45), (2, 1, (1, 2), 0), (1, 1, (1, 1), 0), (3, 2, (0, 0), 45)):
      for ign in (False, True):
        cfg.append(_cfg(n, ign, par, lat, ct))
    cfg.append(_cfg(3, False, 1, (1, 1), 0, tick=0))
    cfg.append(_cfg(3, False, 2, (1, 2), 45, tick=0))
    # more tasks than the pool has capacity: the task iterator is not exhausted while workers die, so dead workers are
    # still acquired when a task has to be re-assigned (with <=3 tasks the `release_all(set())` in as_completed - an empty
    # set means ALL workers - has released them before)
    cfg += [_cfg(4, False, 2, (0, 0), 0), _cfg(4, False, 2, (0, 2), 0), _cfg(5, False, 2, (1, 1), 0), _cfg(5, True, 2, (2, 1), 0)]
    return dict(bound=40, kinds=4, k=7, configs=cfg)
  cfg = []
  for n in (1, 2):
    for ign in (False, True):
      for par in (1, 2):
        for lat in ((0, 0), (1, 2)):
          for ct in (0, 45):
            cfg.append(_cfg(n, ign, par, lat, ct, faults=3))
  for ign in (False, True):
    for par in (1, 2):
      for lat in ((0, 0), (1, 1), (1, 2), (2, 1)):
        for ct in (0, 45):
          cfg.append(_cfg(3, ign, par, lat, ct, faults=3))
  for par in (1, 2):
    for lat in ((1, 1), (1, 2)):
      cfg.append(_cfg(3, False, par, lat, 45, rejoin=2, faults=3))
      cfg.append(_cfg(3, False, par, lat, 45, rejoin=2, faults=3, tick=0))
  for n in (4, 5):
    for lat in ((0, 0), (1, 1), (1, 2), (0, 2)):
      for ign in (False, True):
        cfg.append(_cfg(n, ign, 2, lat, 0))
    for lat in ((1, 1), (0, 2)):
      cfg.append(_cfg(n, False, 1, lat, 0))
      cfg.append(_cfg(n, False, 2, lat, 45))
  return dict(bound=60, kinds=5, k=8, configs=cfg)


def bounds(tier):
  p = _configs(tier)
  return dict(workers=2, tasks='<=5', faults_per_run='per config (2 or 3)', outcome_kinds=p['kinds'],
              symbolic_calls_per_worker=p['k'], loop_bound_quanta=p['bound'], configs=p['configs'],
              note='outcome of the i-th task call of each worker is a symbolic int (0 ok, 1 deadline-exceeded, 2 application '
                   'error, 3 host dies for good, 4 host dies and rejoins after `rejoin` quanta - thorough only); beyond '
                   '`faults` consumed faults every call is ok; a run that needs more than loop_bound_quanta sleep() calls '
                   'ends the obligation WITHOUT verdict (inconclusive). With call_timeout=0 a host only rejoins after its '
                   'death was noticed (rejoin=6 quanta > heartbeat threshold): see OUTSIDE')


BOUNDS = {'quick': bounds('quick'), 'thorough': bounds('thorough')}


def _tag(c):
  return (f"n{c['n']}_ign{int(c['ign'])}_par{c['par']}_lat{c['lat'][0]}{c['lat'][1]}_ct{c['ct']}_tick{c['tick']}_f{c['faults']}"
          + (f"_rj{c['rejoin']}" if c['rejoin'] != 6 else ''))


def _kw(p, c):
  return dict(c, bound=p['bound'], kinds=p['kinds'], flip_apart=_flip_apart(c))


def _flip_apart(c):
  # the select/submit liveness flip needs (i) a clock that moves between two time() calls and (ii) a dead host whose
  # call fails (deadline) BEFORE its heartbeat is stale, i.e. call_timeout > 0; only there it is stated as an obligation
  # of its own (ob_no_flip_select_submit_*), everywhere else a flip simply fails ob_delivery_*.
  return c['tick'] > 0 and c['ct'] > 0


def gen(tier):
  from vf import xh
  p = _configs(tier)
  k, hi = p['k'], p['kinds'] - 1
  params = ', '.join(f'o{w}{i}: int' for w in range(2) for i in range(k))
  pre = [f'0 <= o{w}{i} <= {hi}' for w in range(2) for i in range(k)]
  sched = '[' + ', '.join('[' + ', '.join(f'o{w}{i}' for i in range(k)) + ']' for w in range(2)) + ']'
  s = [PRELUDE]
  for c in p['configs']:
    kw, t = repr(_kw(p, c)), _tag(c)
    s.append(xh.fn(f'ob_delivery_{t}', params, pre, f'return check_delivery({kw}, {sched})'))
    if _flip_apart(c):
      s.append(xh.fn(f'ob_no_flip_select_submit_{t}', params, pre, f'return check_no_flip({kw}, {sched})'))
    s.append(xh.fn(f'ob_released_on_return_{t}', params, pre, f'return check_released({kw}, {sched}, False)'))
    s.append(xh.fn(f'ob_released_on_raise_{t}', params, pre, f'return check_released({kw}, {sched}, True)'))
  # vacuity witnesses on the first configuration with 3 tasks (and the first ignore_failures one)
  c3 = next(c for c in p['configs'] if c['n'] == 3 and not c['ign'])
  ci = next(c for c in p['configs'] if c['ign'] and c['n'] == 3)
  wits = [('retry_deadline', c3), ('retry_death', c3), ('app_error', c3), ('all_dead', c3), ('both_workers_used', c3),
          ('two_faults', c3), ('ignored_failure', ci)]
  if p['kinds'] > 4:
    wits.append(('rejoin', c3))
  for what, c in wits:
    s.append(xh.fn(f'wit_{what}', params, pre, f'return not witness({_kw(p, c)!r}, {sched}, {what!r})'))
  return '\n'.join(s)


def resolve(dotted):
  """dotted name -> object (properties stay property objects so that common.src_ref can unwrap them)."""
  import importlib, inspect
  parts = dotted.split('.')
  for i in range(len(parts), 0, -1):
    try:
      obj = importlib.import_module('.'.join(parts[:i]))
      break
    except ImportError:
      continue
  for part in parts[i:]:
    obj = inspect.getattr_static(obj, part) if isinstance(obj, type) else getattr(obj, part)
  return obj


def run_into(rep, tier, only=None, include_raise=True):
  """Adds the task-path obligations to a Report (checks/c06.py owns it). include_raise=False leaves out the
  ob_released_on_raise_* family (expected to be refuted on the unchanged tree, signature RAISE_SIGNATURE)."""
  from vf import xh
  for dotted in ENCODED:
    rep.encoded(resolve(dotted))
  rep.bounds(**bounds(tier))
  rep.outside(*OUTSIDE)
  rep.assume(*ASSUME)
  o = os.environ.get('VF_ONLY')
  def sel(n):
    if not include_raise and n.startswith('ob_released_on_raise'): return False
    if only is not None and not only(n): return False
    return o in n if o else True
  return xh.run_module(rep, gen(tier), 'c06seq_h', 150 if tier == 'quick' else 1200, classify=classify, only=sel)


def replay(data):
  from vf import xh
  return xh.replay_file(data)


def _load(tier):
  sys.path.insert(0, os.path.dirname(os.path.dirname(os.path.abspath(__file__))))
  from vf import common, xh
  sys.path.insert(0, common.REPO)
  os.makedirs(common.WORK, exist_ok=True)
  path = os.path.join(common.WORK, 'c06_seq_dbg.py')
  with open(path, 'w') as f:
    f.write(xh.HEADER + gen(tier))
  import importlib.util
  spec = importlib.util.spec_from_file_location('c06_seq_dbg', path)
  m = importlib.util.module_from_spec(spec); sys.modules['c06_seq_dbg'] = m; spec.loader.exec_module(m)
  return m


def _show(o):
  return {k: (repr(v) if k == 'err' else v) for k, v in o.items()} if isinstance(o, dict) else o


def main(argv=None):
  """python -m checks.c06_seq [quick|thorough]   plain-python exhaustive enumeration (no CrossHair) of every schedule
     python -m checks.c06_seq restart            the quick-restart scenario that is outside the claim (never terminates)
     python -m checks.c06_seq one '<kw dict>' '<decisions list>'   one schedule, verbose"""
  argv = list(sys.argv[1:] if argv is None else argv)
  tier = argv[0] if argv else 'quick'
  if tier == 'restart':
    m = _load('thorough')
    kw = dict(_cfg(1, False, 1, (1, 1), 0, rejoin=2, faults=1), bound=40, kinds=5)
    for d, o in m.enumerate_schedules(kw):
      if 4 in d: print(d, _show(o))
    return 0
  if tier == 'one':
    m = _load('thorough')
    kw, dec = eval(argv[1]), eval(argv[2])   # pylint: disable=eval-used
    for d, o in m.enumerate_schedules(kw):
      if d[:len(dec)] == dec:
        print(d, _show(o)); break
    return 0
  m = _load(tier)
  p = _configs(tier)
  bad = 0
  for c in p['configs']:
    kw = _kw(p, c)
    total = viol = raise_leak = loop = flips = 0
    for decisions, o in m.enumerate_schedules(kw):
      total += 1
      if o == 'LOOPBOUND':
        loop += 1; print('  LOOPBOUND', _tag(c), decisions); continue
      want = sorted(set(o['exp']) - set(o['failed'])) if c['ign'] else o['exp']
      ok = len(set(o['out'])) == len(o['out']) and all(v in o['exp'] for v in o['out'])
      ok = ok and not (o['err'] is None and sorted(o['out']) != want)
      if o['never_died']:
        if o['failed'] and not c['ign']: ok = ok and isinstance(o['err'], m.AppError)
        else: ok = ok and o['err'] is None and sorted(o['out']) == want
      if o['err'] is None and o['acquired']: ok = False
      if o['flip'] and kw['flip_apart']:
        flips += 1
        if flips == 1: print('  flip (first)', _tag(c), decisions, _show(o))
      elif not ok:
        viol += 1; print('  VIOLATION', _tag(c), decisions, _show(o))
      if o['err'] is not None and o['acquired']:
        raise_leak += 1
        if raise_leak == 1: print('  raise-leak (first)', _tag(c), decisions, repr(o['err']), o['acquired'], o['log'])
    bad += viol + loop
    print(f'{_tag(c)}: schedules={total} violations={viol} loopbound={loop} select/submit-flips={flips} '
          f'raise_with_acquired_workers={raise_leak}')
  return 1 if bad else 0


if __name__ == '__main__':
  sys.exit(main())
