"""C17 - lazy expressions evaluate to what the eager expression would.

Engine A: CrossHair executes the real LazyObject/LazyFn (new, __call__, __getattr__, __getitem__, result_, __hash__,
__eq__), _maybe_make/maybe_make, _maybe_lru_cache, pickler.dumps/loads, clear_cache/clear_object and func_utils.LruCache.

Three families of obligations:
  lru_*   LruCache as ONE INDUCTIVE STEP from an arbitrary valid state (constructed directly) against a reference model,
          with the representation invariant in the post-state; plus bounded multi-step histories through the public API.
  sym_* / flags_* / pickle_* / hist_*
          generated expression skeletons (depth <= 3) over traced callables with lazy arguments, compared with an eager
          evaluator (with a memo for the calls traced with cache_result_=True); integer leaves, cache/lazy flags and the
          make/clear history are symbolic.
  fn_bound / obj_* / handle_*
          the real bounds (128 cached calls, 1024 held objects): LRU eviction, clear, LazyObjectMissingError.
"""
import os

from vf import common, xh

PRELUDE = r'''
import collections, sys
from ml_metrics._src.chainables import lazy_fns
from ml_metrics._src.utils import func_utils
_vf_silence(lazy_fns, func_utils)
if _VF_SYMBOLIC:
  import crosshair.core as _chc
  _vf_orig_sc = _chc.consider_shortcircuit
  def _vf_no_sc(fn, sig, bound, subconditions, allow_interpretation):
    # CrossHair may replace a call of a function that carries a contract (here: its own model of builtin hash())
    # by an unconstrained symbolic return value ("short circuit") and reconcile later. With hash values that go
    # into a real dict this only produces UNKNOWN paths; always calling into the function is the sound choice.
    if allow_interpretation: return None
    return _vf_orig_sc(fn, sig, bound, subconditions, allow_interpretation)
  _chc.consider_shortcircuit = _vf_no_sc
  def _vf_real(x): return _chc.realize(x)
  from crosshair.tracers import NoTracing as _vf_untraced
  from crosshair.util import NotDeterministic as _VfNotDet
  _vf_exc0 = _vf_exc
  def _vf_exc(name, e):
    if isinstance(e, _VfNotDet): raise e      # CrossHair's own signal, not an outcome of the code under test
    return _vf_exc0(name, e)
else:
  def _vf_real(x): return x
  import contextlib
  _vf_untraced = contextlib.nullcontext

def _pick(x, lo, hi):
  """Concrete value of a bounded symbolic int through ordinary branches (one path per value)."""
  for v in range(lo, hi):
    if x == v: return v
  return hi

class Key:
  """Cache key whose equality is that of a (symbolic) int and whose hash is constant (a valid hash): the dict
  inside LruCache then decides membership through __eq__, so z3 reasons about the equality pattern between the
  keys instead of enumerating key values (int keys are realised by hash())."""
  __slots__ = ('k',)
  def __init__(self, k): self.k = k
  def __hash__(self): return 7
  def __eq__(self, other): return isinstance(other, Key) and self.k == other.k
  def __repr__(self): return 'Key(%r)' % (self.k,)

# ---------------------------------------------------------------- LruCache: reference model ----------------
def _lru_mk(maxsize, items, hits, misses):
  """An arbitrary cache state, constructed directly (not through a history of operations)."""
  c = func_utils.LruCache(maxsize=maxsize)
  c.data = collections.OrderedDict(items)
  c.currsize = len(items); c.hits = hits; c.misses = misses
  return c

def _lru_ref(items, maxsize, hits, misses, op, k, v):
  """Reference LRU. items = [(key, value)], least recently used first.
  Returns (result, [acceptable item lists], hits, misses)."""
  found = [kv for kv in items if kv[0] == k]
  rest = [kv for kv in items if kv[0] != k]
  if op == 0:      # get
    if found: return ('ok', found[0][1]), [rest + found], hits + 1, misses
    return ('KeyError', None), [items], hits, misses + 1
  if op == 1 or op == 4:      # set / cache_insert
    if found:      # overwrite: new value; the property does not say whether overwriting counts as a use
      return None, [[(kk, v if kk == k else vv) for kk, vv in items], rest + [(k, v)]], hits, misses
    new = items + [(k, v)]
    return None, [new[len(new) - maxsize:] if len(new) > maxsize else new], hits, misses
  if op == 2: return (True if found else False), [items], hits, misses     # contains
  return None, [[]], 0, 0                                                # clear

def _lru_do(c, op, k, v):
  if op == 0:
    try: return ('ok', c[k])
    except KeyError: return ('KeyError', None)
  if op == 1: c[k] = v; return None
  if op == 4: c.cache_insert(k, v); return None
  if op == 2: return k in c
  c.cache_clear(); return None

def _lru_inv(c, opts, maxsize, hits, misses):
  """Post-state: contents+recency order as in the model AND the representation invariant (so the step is inductive)."""
  got = list(c.data.items())
  info = c.cache_info()
  if not (c.currsize == len(c.data) and c.currsize <= maxsize and c.maxsize == maxsize): return False
  if not (len(c) == len(got) and list(c) == [kv[0] for kv in got]): return False
  if not (info.hits == hits and info.misses == misses and info.currsize == len(got) and info.maxsize == maxsize): return False
  for o in opts:
    if got == o: return True
  return False

def _lru_hist(maxsize, ops):
  """Public API only: c[k], c[k]=v, k in c, list(c), len(c), cache_info(), cache_clear()."""
  c = func_utils.LruCache(maxsize=maxsize)
  items, h, m = [], 0, 0
  for op, k, v in ops:
    out = _lru_do(c, op, k, v)
    wout, opts, h, m = _lru_ref(items, maxsize, h, m, op, k, v)
    if out != wout: return False
    keys = list(c)
    items = None
    for o in opts:
      if keys == [kv[0] for kv in o]: items = o; break
    if items is None: return False
    info = c.cache_info()
    if not (len(c) == len(items) and len(items) <= maxsize and info.currsize == len(items)
            and info.hits == h and info.misses == m and info.maxsize == maxsize): return False
  for kk, vv in list(items):        # every retained entry still reads its own value (least recent first)
    if _lru_do(c, 0, kk, None) != ('ok', vv): return False
  return True

# ---------------------------------------------------------------- traced callables ---------------------------
_LOG = []
def add(a, b): _LOG.append('add'); return a + b
def mul(a, b): _LOG.append('mul'); return a * b
def okw(**kw):
  """Order sensitive in the keyword names and in the values."""
  _LOG.append('okw'); r = 0
  for name, v in kw.items(): r = r * 7 + v + (3 if name == 'zeta' else 5)
  return r
def pair(a, b): _LOG.append('pair'); return [a, b]
class Obj:
  def __init__(self, a, b): _LOG.append('obj'); self.a = a; self.b = b
  def scaled(self, k): _LOG.append('scaled'); return self.a * k + self.b
class Counter:
  """Stateful callee: the value depends on how often (and in which order) it was invoked before."""
  def __init__(self): self.n = 0
  def __call__(self, x): _LOG.append('cnt'); r = x + 10 * self.n; self.n += 1; return r
class _Env:
  def __init__(self): self.cnt = Counter(); self.memo = []
_FN = {'add': add, 'mul': mul, 'pair': pair, 'obj': Obj}
T = lazy_fns.trace

def _reset():
  lazy_fns.clear_cache(); lazy_fns.clear_object(); del _LOG[:]

# expression trees: ('L', int) | ('item', X, I) | ('attr', X, name) | (fn, (cache, lazy), child...)
def _lazy(n, env):
  """The expression written with the tracing API."""
  k = n[0]
  if k == 'L': return n[1]
  if k == 'item': return _lazy(n[1], env)[_lazy(n[2], env)]
  if k == 'attr': return getattr(_lazy(n[1], env), n[2])
  c, lz = n[1]
  if k == 'meth': return _lazy(n[2], env).scaled(_lazy(n[3], env), cache_result_=c, lazy_result_=lz)
  if k == 'cnt': return T(env.cnt)(_lazy(n[2], env), cache_result_=c, lazy_result_=lz)
  if k == 'okw': return T(okw)(zeta=_lazy(n[2], env), alpha=_lazy(n[3], env), cache_result_=c, lazy_result_=lz)
  return T(_FN[k])(_lazy(n[2], env), _lazy(n[3], env), cache_result_=c, lazy_result_=lz)

def _key(n):
  """Identity of a traced call: callee and arguments by value (flags do not take part)."""
  k = n[0]
  if k == 'L': return n[1]
  if k == 'item': return ('item', _key(n[1]), _key(n[2]))
  if k == 'attr': return ('attr', _key(n[1]), n[2])
  return (k,) + tuple(_key(ch) for ch in n[2:])

def _eager(n, env):
  """The same expression evaluated eagerly, left to right; a call traced with cache_result_ is evaluated once per
  distinct call until the cache is cleared (env.memo)."""
  k = n[0]
  if k == 'L': return n[1]
  if k == 'item': return _eager(n[1], env)[_eager(n[2], env)]
  if k == 'attr': return getattr(_eager(n[1], env), n[2])
  c = n[1][0]
  key = None
  if c:
    key = _key(n)
    for kk, vv in env.memo:
      if kk == key: return vv
  if k == 'meth':
    o = _eager(n[2], env); a = _eager(n[3], env); r = o.scaled(a)
  elif k == 'cnt':
    a = _eager(n[2], env); r = env.cnt(a)
  elif k == 'okw':
    a = _eager(n[2], env); b = _eager(n[3], env); r = okw(zeta=a, alpha=b)
  else:
    a = _eager(n[2], env); b = _eager(n[3], env); r = _FN[k](a, b)
  if c: env.memo.append((key, r))
  return r

def _val(r):
  return ('obj', r.a, r.b) if isinstance(r, Obj) else r

def _round(e, tree, envE, handle):
  """One materialisation; value and the number of invocations per callee are compared with the eager evaluation."""
  n0 = len(_LOG); r = lazy_fns.maybe_make(e)
  if handle:          # lazy_result_: a handle comes back; dereferencing it gives the value
    if not isinstance(r, lazy_fns.LazyObject) or isinstance(r, lazy_fns.LazyFn): return None, False
    r = lazy_fns.maybe_make(r)
  got_log = sorted(_LOG[n0:])
  n0 = len(_LOG); w = _eager(tree, envE); want_log = sorted(_LOG[n0:])
  if got_log != want_log: return r, False
  if _val(r) != _val(w): return r, False
  return r, True

def _is_call(t): return t[0] not in ('L', 'item', 'attr')

def _hist(trees, handles, ops):
  """A history of makes (op = index of the expression) and clear_cache() (op = len(trees))."""
  _reset(); envL, envE = _Env(), _Env()
  es = [_lazy(t, envL) for t in trees]
  ident, seen = [], []
  for op in ops:
    if op == len(trees):
      lazy_fns.clear_cache(); envE.memo = []; ident = []
      continue
    t = trees[op]
    r, ok = _round(es[op], t, envE, handles[op])
    if not ok: return False
    if _is_call(t) and t[1][0]:        # cached call: the identical object until the cache is cleared
      key = _key(t); prev = [o for kk, o in ident if kk == key]
      if prev:
        if r is not prev[0]: return False
      else:
        ident.append((key, r))
    elif t[0] in ('pair', 'obj'):      # not cached: evaluated afresh (a new object every time)
      for s in seen:
        if r is s: return False
    seen.append(r)
  return True

def _pickled(tree, handle):
  """Serialisation round trip. Every input is concrete here (realised by the caller: the C pickler cannot see
  through symbolic proxies), so the caller runs this untraced: z3 picks the inputs, the real code runs natively."""
  _reset(); envL, envE = _Env(), _Env()
  e = _lazy(tree, envL)
  blob = lazy_fns.pickler.dumps(e)
  e2 = lazy_fns.pickler.loads(blob)
  e3 = lazy_fns.pickler.loads(lazy_fns.pickler.dumps(e, compress=True), compress=True)
  for _ in range(2):
    r, ok = _round(e2, tree, envE, handle)
    if not ok: return False
  lazy_fns.clear_cache()
  r, ok = _round(e3, tree, _Env(), handle)        # gzip variant: a second, independent copy
  if not ok: return False
  lazy_fns.clear_cache()
  r, ok = _round(blob, tree, _Env(), handle)      # maybe_make accepts the bytes
  return ok

def nsum(a, b):
  _LOG.append('nsum')
  vals = list(a.values()) if isinstance(a, dict) else [v for v in a]
  return [int(v) for v in vals if v == v] + [b]

def _pickled_unhashable(x0, x1, c0, kind):
  """A (possibly cached) call whose argument is unhashable and not reflexively equal (list / dict holding NaN, numpy array with two
  elements): the LazyFn hashes by its persistent id. Three separately deserialised copies of the expression - what three requests to a
  worker receive - must each evaluate to the eager value. Inputs are concrete here (see _pickled)."""
  import numpy as _np
  _reset()
  mk = lambda: [[float('nan'), x0], _np.array([x0, x1]), {'a': float('nan'), 'b': x0}][kind]
  want = nsum(mk(), x1)
  blob = lazy_fns.pickler.dumps(T(nsum)(mk(), x1, cache_result_=c0))
  del _LOG[:]
  for _ in range(3):
    try:
      r = lazy_fns.maybe_make(lazy_fns.pickler.loads(blob))
    except Exception:
      return False
    if r != want: return False
  return _LOG == ['nsum'] * len(_LOG) and 1 <= len(_LOG) <= 3

def _raises_missing(x):
  try:
    lazy_fns.maybe_make(x)
  except lazy_fns.LazyObjectMissingError:
    return True
  return False
'''

# ------------------------------------------------------------------------------------------------ skeletons ---
ARITY = {'add': 2, 'mul': 2, 'okw': 2, 'cnt': 1, 'item': 2, 'attr': 2, 'meth': 3, 'pair': 2, 'obj': 2}
INNER = ['add', 'mul', 'okw', 'cnt', 'item', 'attr', 'meth']   # productions usable at any position
ROOT_ONLY = ['pair', 'obj']                                      # return a fresh object: used at the root for identity


def trees(size, root=True):
  """All skeletons with exactly `size` productions. A skeleton is (prod, [child|None...]); None = integer leaf."""
  if size == 0:
    return [None]
  out = []
  for p in INNER + (ROOT_ONLY if root else []):
    a = ARITY[p]
    for split in _splits(size - 1, a):
      kids = [[]]
      for s in split:
        kids = [k + [c] for k in kids for c in trees(s, False)]
      out += [(p, k) for k in kids]
  return out


def _splits(n, parts):
  if parts == 1:
    return [[n]]
  return [[i] + r for i in range(n + 1) for r in _splits(n - i, parts - 1)]


def name(t):
  if t is None or isinstance(t, int):
    return 'x' if t is None else str(t)
  return t[0] + {'!': 'C', '~': 'U', '': ''}[t[2] if len(t) > 2 else ''] + ''.join('_' + name(c) for c in t[1])


class Emit:
  """Turns a skeleton into harness source; allocates leaf / flag variable names."""

  def __init__(self, cached, nleafvars=None):
    self.cached, self.nleafvars = cached, nleafvars
    self.leaves, self.flags, self.idx, self.attr, self.items = 0, [], 0, 0, 0
    self.conflict = None   # the flag that shares a node with `lz`
    self.handle = False

  def leaf(self):
    j = self.leaves
    self.leaves += 1
    return f"('L', x{j % self.nleafvars if self.nleafvars else j})"

  def flag(self, spec=''):
    """spec '!' = cache_result_ fixed True, '~' = fixed False, '' = symbolic."""
    if not self.cached or spec == '~':
      return 'False'
    if spec == '!':
      return 'True'
    self.flags.append(f'c{len(self.flags)}')
    return self.flags[-1]

  def node(self, t, lz='False'):
    if t is None:
      return self.leaf()
    if isinstance(t, int):
      return f"('L', {t})"
    p, kids = t[0], t[1]
    spec = t[2] if len(t) > 2 else ''
    if p in ('item', 'attr'):
      c = self.flag(spec)
      if lz != 'False': self.conflict = c
      x = f"('{'pair' if p == 'item' else 'obj'}', ({c}, {lz}), {self.node(kids[0])}, {self.node(kids[1])})"
      if p == 'item':
        self.items += 1
        if self.items > 1:            # only the first index is symbolic, later ones alternate 1, 0
          return f"('item', {x}, ('L', {self.items % 2}))"
        self.idx += 1
        return f"('item', {x}, ('L', i{self.idx - 1}))"
      self.attr += 1
      return f"('attr', {x}, '{'ab'[self.attr % 2]}')"
    if p == 'meth':
      c_obj = self.flag('~' if spec else '')
      x = f"('obj', ({c_obj}, False), {self.node(kids[0])}, {self.node(kids[1])})"
      k = self.node(kids[2])
      c = self.flag(spec)
      if lz != 'False': self.conflict = c; self.handle = True
      return f"('meth', ({c}, {lz}), {x}, {k})"
    c = self.flag(spec)
    if lz != 'False': self.conflict = c; self.handle = True
    ks = ', '.join(self.node(k) for k in kids)
    return f"('{p}', ({c}, {lz}), {ks})"


def _params(nleaf, nidx, flags, lz, lo, hi):
  ps = [f'x{j}: int' for j in range(nleaf)] + [f'i{j}: int' for j in range(nidx)] + [f'{f}: bool' for f in flags]
  pre = [f'{lo} <= x{j} <= {hi}' for j in range(nleaf)] + [f'0 <= i{j} <= 1' for j in range(nidx)]
  if lz:
    ps.append('lz: bool')
  return ', '.join(ps) or 'dummy: bool', ' and '.join(pre) or 'True'


def gen(p):
  F = xh.fn
  s = [PRELUDE]
  A = s.append
  # ============================================================ LruCache, one inductive step ================
  M = p['lru_maxsize']
  for kind in p['lru_key_kinds']:
    lo_k, hi_k = (-1000, 1000) if kind == 'obj' else (0, p['lru_int_keys'] - 1)
    wrap = 'Key(%s)' if kind == 'obj' else '%s'
    for n in range(0, (M if kind == 'obj' else p['lru_int_n']) + 1):
      ks = [f'k{j}' for j in range(n)]
      params = ', '.join(['maxsize: int', 'op: int'] + [f'{k}: int' for k in ks] + [f'v{j}: int' for j in range(n)]
                         + ['k: int', 'v: int', 'h: int', 'm: int'])
      pre = [f'{max(n, 1)} <= maxsize <= {M} and 0 <= op <= 4 and {lo_k} <= k <= {hi_k} and -50 <= v <= 50 and 0 <= h <= 1000 and 0 <= m <= 1000']
      if n:
        pre.append(' and '.join([f'{lo_k} <= {k} <= {hi_k}' for k in ks] + [f'-50 <= v{j} <= 50' for j in range(n)]))
      if n > 1:
        pre.append(' and '.join(f'k{a} != k{b}' for a in range(n) for b in range(a + 1, n)))
      items = '[' + ', '.join(f'({wrap % ("k%d" % j)}, v{j})' for j in range(n)) + ']'
      A(F(f'ob_lru_step_{kind}_n{n}', params, pre, f"""
      items = {items}
      key = {wrap % 'k'}
      c = _lru_mk(maxsize, items, h, m)
      out = _lru_do(c, op, key, v)
      wout, opts, wh, wm = _lru_ref(items, maxsize, h, m, op, key, v)
      if out != wout: return False
      return _lru_inv(c, opts, maxsize, wh, wm)"""))
  A(F('ob_lru_init', 'maxsize: int', f'1 <= maxsize <= {M}', """
      return _lru_inv(func_utils.LruCache(maxsize=maxsize), [[]], maxsize, 0, 0)     # base case of the induction"""))
  A(F('wit_lru_evict', 'k0: int, k1: int, k: int', 'k0 != k1', """
      c = _lru_mk(2, [(Key(k0), 0), (Key(k1), 1)], 0, 0)
      c[Key(k)] = 2
      return not (list(c) == [Key(k1), Key(k)] and len(c) == 2)"""))
  A(F('wit_lru_hit', 'k0: int, k1: int, k: int', 'k0 != k1', """
      c = _lru_mk(2, [(Key(k0), 7), (Key(k1), 1)], 0, 0)
      return not (_lru_do(c, 0, Key(k), None) == ('ok', 7) and list(c) == [Key(k1), Key(k0)] and c.cache_info().hits == 1)"""))
  # ============================================================ LruCache, bounded histories ==================
  code = {'S': 1, 'G': 0, 'C': 3, 'N': 2, 'I': 4}
  for seq in p['lru_hists']:
    L = len(seq)
    params = ', '.join(['maxsize: int'] + [f'k{j}: int' for j in range(L) if seq[j] != 'C'] + [f'v{j}: int' for j in range(L) if seq[j] in 'SI'])
    pre = ' and '.join([f'1 <= maxsize <= {p["lru_hist_maxsize"]}'] + [f'-1000 <= k{j} <= 1000' for j in range(L) if seq[j] != 'C']
                       + [f'-50 <= v{j} <= 50' for j in range(L) if seq[j] in 'SI'])
    ops = '[' + ', '.join(f"({code[ch]}, {'Key(k%d)' % j if ch != 'C' else 'None'}, {'v%d' % j if ch in 'SI' else 'None'})" for j, ch in enumerate(seq)) + ']'
    A(F(f'ob_lru_hist_{seq}', params, pre, f"""
      return _lru_hist(maxsize, {ops})"""))
  A(F('wit_lru_hist', 'k0: int, k1: int, k2: int', 'True', """
      c = func_utils.LruCache(maxsize=1)
      c[Key(k0)] = 1; c.cache_clear(); c[Key(k1)] = 2
      return not (_lru_do(c, 0, Key(k2), None) == ('ok', 2) and len(c) == 1)"""))
  # ============================================================ expressions: fully symbolic leaves, not cached =
  lo, hi = p['sym_range']
  group, gi = [], 0

  def flush():
    nonlocal group, gi
    if not group:
      return
    nleaf = max(g[1] for g in group)
    nidx = max(g[2] for g in group)
    params, pre = _params(nleaf, nidx, [], True, lo, hi)
    rows = ',\n        '.join(f'({g[0]}, {g[3]})' for g in group)
    A(F(f'ob_sym_g{gi:02d}', params, pre, f"""
      for tree, handle in [
        {rows}]:
        if not _hist([tree], [handle], [0, 0]): return False
      return True"""))
    group, gi = [], gi + 1

  for t in p['sym_trees']:
    em = Emit(cached=False)
    src = em.node(t, lz='lz')
    group.append((src, em.leaves, em.idx, 'lz' if em.handle else 'False'))
    if len(group) >= p['sym_group']:
      flush()
  flush()
  A(F('wit_sym', 'x0: int, x1: int, x2: int, lz: bool', f'{lo} <= x0 <= {hi} and {lo} <= x1 <= {hi} and {lo} <= x2 <= {hi}', """
      _reset(); env = _Env()
      r = lazy_fns.maybe_make(_lazy(('add', (False, lz), ('cnt', (False, False), ('L', x0)), ('mul', (False, False), ('L', x1), ('L', x2))), env))
      return not (type(r) is lazy_fns.LazyObject and lazy_fns.maybe_make(r) == 7 and x1 == 3 and sorted(_LOG) == ['add', 'cnt', 'mul'])"""))
  # ============================================================ expressions: cache / lazy flags symbolic ========
  lo2, hi2 = p['flag_range']
  for (flo, fhi, nlv), ftrees in p['flag_sets']:
    for t in ftrees:
      em = Emit(cached=True, nleafvars=nlv)
      src = em.node(t, lz='lz')
      params, pre = _params(min(em.leaves, nlv), em.idx, em.flags, True, flo, fhi)
      pres = [pre, f'not ({em.conflict} and lz)']
      A(F(f'ob_flags_{name(t)}_r{fhi - flo + 1}v{nlv}', params, pres, f"""
      tree = {src}
      return _hist([tree], [{'lz' if em.handle else 'False'}], [0, 0, 1, 0])"""))
  for t in p['pickle_trees']:
    em = Emit(cached=True, nleafvars=p['flag_leafvars'])
    src = em.node(t, lz='lz')
    nleaf = min(em.leaves, p['flag_leafvars'])
    params, pre = _params(nleaf, em.idx, em.flags, True, lo2, hi2)
    pres = [pre, f'not ({em.conflict} and lz)']
    real = '; '.join([f'x{j} = _pick(x{j}, {lo2}, {hi2})' for j in range(nleaf)] + [f'i{j} = _pick(i{j}, 0, 1)' for j in range(em.idx)]
                     + [f'{v} = True if {v} else False' for v in em.flags + ['lz']])
    A(F(f'ob_pickle_{name(t)}', params, pres, f"""
      {real}
      tree = {src}
      with _vf_untraced():
        return _pickled(tree, {'lz' if em.handle else 'False'})"""))
  A(F('ob_pickle_unhashable', 'x0: int, x1: int, c0: bool, kind: int', f'{lo2} <= x0 <= {hi2} and {lo2} <= x1 <= {hi2} and 0 <= kind <= 2', f"""
      x0 = _pick(x0, {lo2}, {hi2}); x1 = _pick(x1, {lo2}, {hi2}); kind = _pick(kind, 0, 2); c0 = True if c0 else False
      with _vf_untraced():
        return _pickled_unhashable(x0, x1, c0, kind)"""))
  A(F('wit_flags', 'x0: int, x1: int, c0: bool, c1: bool', f'{lo2} <= x0 <= {hi2} and {lo2} <= x1 <= {hi2}', """
      _reset(); env = _Env()
      e = _lazy(('pair', (c0, False), ('cnt', (c1, False), ('L', x0)), ('L', x1)), env)
      r1 = lazy_fns.maybe_make(e); r2 = lazy_fns.maybe_make(e)
      return not (r2 is r1 and _LOG == ['cnt', 'pair'] and not c1 and lazy_fns.cache_info().hits == 1)"""))
  A(F('wit_pickle', 'x0: int, c0: bool', f'{lo2} <= x0 <= {hi2}', """
      x0 = _vf_real(x0); c0 = _vf_real(c0)
      _reset(); env = _Env()
      e = _lazy(('okw', (c0, False), ('cnt', (False, False), ('L', x0)), ('cnt', (False, False), ('L', x0))), env)
      r = lazy_fns.maybe_make(lazy_fns.pickler.dumps(e))
      return not (c0 and r == (x0 + 3) * 7 + x0 + 10 + 5 and env.cnt.n == 0 and _LOG == ['cnt', 'cnt', 'okw'])"""))
  # ============================================================ histories over two expressions ==================
  for hn, (t0, t1, nops) in sorted(p['hists'].items()):
    em = Emit(cached=True, nleafvars=p['flag_leafvars'])
    s0 = em.node(t0)
    s1 = em.node(t1)
    params, pre = _params(min(em.leaves, p['flag_leafvars']), em.idx, em.flags, False, 0, 1)
    params += ', ' + ', '.join(f'o{j}: int' for j in range(nops))
    pre += ' and ' + ' and '.join(f'0 <= o{j} <= 2' for j in range(nops))
    A(F(f'ob_hist_{hn}', params, pre, f"""
      return _hist([{s0}, {s1}], [False, False], [{', '.join(f'o{j}' for j in range(nops))}])"""))
  A(F('wit_hist', 'x0: int, x1: int, o0: int, o1: int, o2: int', '0 <= x0 <= 1 and 0 <= x1 <= 1 and 0 <= o0 <= 2 and 0 <= o1 <= 2 and 0 <= o2 <= 2', """
      _reset(); env = _Env()
      es = [_lazy(('cnt', (True, False), ('L', x0)), env), _lazy(('cnt', (True, False), ('L', x1)), env)]
      out = []
      for o in (o0, o1, o2):
        if o == 2: lazy_fns.clear_cache()
        else: out.append(lazy_fns.maybe_make(es[o]))
      return not (o0 == 0 and o1 == 2 and o2 == 1 and x0 == x1 and out == [x0, x0 + 10] and lazy_fns.cache_info().misses == 1)"""))
  # ============================================================ the real bounds ================================
  B, BO = p['fn_bound'], p['obj_bound']
  n1s = ' or '.join(f'n1 == {v}' for v in p['fn_prefill'])
  A(F('ob_fn_bound', 'n1: int, n2: int, x: int, touch: bool', [n1s, f'{B - p["fn_slack"]} <= n2 <= {B + 1} and 0 <= x <= 1'], f"""
      _reset()
      if lazy_fns.cache_info().maxsize != {B}: return False
      n1 = _vf_real(n1); n2 = _vf_real(n2); touch = _vf_real(touch)
      def fill(base, lo, hi):          # concrete filler calls: executed by the real code, untraced (nothing symbolic in them)
        with _vf_untraced():
          for j in range(lo, hi): lazy_fns.maybe_make(T(pair)(base + j, 0, cache_result_=True))
      fill(1000, 0, n1)
      lazy_fns.clear_cache()
      e = T(pair)(x, 1, cache_result_=True)
      r1 = lazy_fns.maybe_make(e)
      fill(2000, 0, min(n2, 61))
      if touch and lazy_fns.maybe_make(e) is not r1: return False
      fill(2000, 61, n2)
      if lazy_fns.cache_info().currsize != min(1 + n2, {B}): return False
      calls = len(_LOG)
      r2 = lazy_fns.maybe_make(e)
      again = len(_LOG) - calls
      if touch or n2 <= {B} - 1:          # still among the {B} most recently used cached calls
        return r2 is r1 and again == 0
      return r2 is not r1 and r2 == [x, 1] and again == 1      # evicted: evaluated afresh, never a stale object"""))
  A(F('wit_fn_bound', 'n2: int', f'{B - 1} <= n2 <= {B}', f"""
      _reset()
      n2 = _vf_real(n2)
      e = T(pair)(0, 1, cache_result_=True)
      r1 = lazy_fns.maybe_make(e)
      with _vf_untraced():
        for j in range(n2): lazy_fns.maybe_make(T(pair)(2000 + j, 0, cache_result_=True))
      return not (lazy_fns.maybe_make(e) is not r1)"""))
  A(F('ob_obj_bound', 'n: int, v: int, w: int', f'{BO - 3} <= n <= {BO + 1} and -50 <= v <= 50 and -50 <= w <= 50', f"""
      _reset()
      if lazy_fns.object_info().maxsize != {BO}: return False
      n = _vf_real(n)
      first = lazy_fns.LazyObject.new([v])
      with _vf_untraced():             # concrete filler objects
        held = [lazy_fns.LazyObject.new(j) for j in range(n)]
      last = lazy_fns.LazyObject.new([w])
      # `first` has n + 1 younger objects: it is still held iff n + 2 <= bound
      if n + 2 <= {BO}:
        ok = lazy_fns.maybe_make(first) == [v]
      else:
        ok = _raises_missing(first)
      return ok and lazy_fns.maybe_make(last) == [w] and lazy_fns.maybe_make(held[n - 1]) == n - 1"""))
  A(F('ob_obj_cleared', 'v: int, w: int', '-50 <= v <= 50 and -50 <= w <= 50', """
      _reset()
      val = [v]
      h = lazy_fns.LazyObject.new(val)
      if lazy_fns.maybe_make(h) is not val: return False
      if lazy_fns.maybe_make(lazy_fns.pickler.dumps(h)) is not val: return False     # the handle survives pickling
      lazy_fns.clear_object()
      if not _raises_missing(h): return False
      h2 = lazy_fns.LazyObject.new([w])
      # the old handle never reads the new object's value
      return _raises_missing(h) and _raises_missing(lazy_fns.pickler.dumps(h)) and lazy_fns.maybe_make(h2) == [w]"""))
  A(F('ob_handle_chain', 'x: int, y: int, k: int, c: bool', '-50 <= x <= 50 and -50 <= y <= 50 and 0 <= k <= 2', """
      _reset()
      h = lazy_fns.maybe_make(T(Obj)(x, y, lazy_result_=True))
      if not isinstance(h, lazy_fns.LazyObject): return False
      o = lazy_fns.maybe_make(h)
      ok = type(o) is Obj and lazy_fns.maybe_make(h) is o and (o.a, o.b) == (x, y)
      ok = ok and lazy_fns.maybe_make(h.a) == x and lazy_fns.maybe_make(h.scaled(k, cache_result_=c)) == x * k + y
      ok = ok and lazy_fns.maybe_make(T(add)(h.b, k)) == y + k
      ok = ok and sorted(_LOG) == ['add', 'obj', 'scaled']
      lazy_fns.clear_cache(); lazy_fns.clear_object()
      return ok and _raises_missing(h) and _raises_missing(h.a) and _raises_missing(h.scaled(k, cache_result_=c)) and _raises_missing(T(add)(h.b, k))"""))
  # ---- stateful objects: only the call made with cache_result_=True is cached; attribute / item lookups chained on it are
  #      evaluated afresh at every materialisation (they yield what the eager expression yields *now*)
  A(F('ob_stateful_chain', 'v: int, x: int, y: int, c: bool', '0 <= v <= 2 and -3 <= x <= 3 and -3 <= y <= 3', """
      _reset()
      class Acc:
        def __init__(self, start): self.total = start; self.history = {'last': None}
        def add(self, d):
          self.total = self.total + d; self.history = {'last': d}        # rebinds, like most metric states
          return self.total
      e = Acc(v)
      la = T(Acc)(v, cache_result_=True)
      ok = lazy_fns.maybe_make(la) is lazy_fns.maybe_make(la)
      ok = ok and lazy_fns.maybe_make(la.total) == e.total
      ok = ok and lazy_fns.maybe_make(la.add(x)) == e.add(x) and lazy_fns.maybe_make(la.total) == e.total
      ok = ok and lazy_fns.maybe_make(la.add(y)) == e.add(y) and lazy_fns.maybe_make(la.total) == e.total
      ok = ok and lazy_fns.maybe_make(la.history['last']) == e.history['last']
      box = [v, x]
      h = lazy_fns.LazyObject.new(box)
      ok = ok and lazy_fns.maybe_make(h[0]) == v
      box[0] = y
      return ok and lazy_fns.maybe_make(h[0]) == y and lazy_fns.maybe_make(h[1]) == x"""))
  A(F('wit_obj_missing', 'n: int', f'{BO - 2} <= n <= {BO + 1}', """
      _reset()
      n = _vf_real(n)
      first = lazy_fns.LazyObject.new([1])
      with _vf_untraced():
        for j in range(n): lazy_fns.LazyObject.new(j)
      return not _raises_missing(first)"""))
  return '\n'.join(s)


def classify(name_, call):
  return name_


def _t(s):
  """'add(mul(x,x),x)' -> skeleton."""
  s = s.replace(' ', '')

  def parse(i):
    if s[i] == 'x':
      return None, i + 1
    if s[i].isdigit():
      return int(s[i]), i + 1
    j = i
    while s[j] != '(':
      j += 1
    p, kids, j = s[i:j], [], j + 1
    spec = p[-1] if p[-1] in '!~' else ''
    p = p.rstrip('!~')
    while True:
      k, j = parse(j)
      kids.append(k)
      if s[j] == ')':
        return (p, kids, spec), j + 1
      j += 1
  t, _ = parse(0)
  assert all(len(n[1]) == ARITY[n[0]] for n in _nodes(t)), s
  return t


def _nodes(t):
  if t is None or isinstance(t, int):
    return []
  return [t] + [n for c in t[1] for n in _nodes(c)]


def params(tier):
  size1, size2, size3 = trees(1), trees(2), trees(3)
  if tier == 'quick':
    sel3 = [t for j, t in enumerate(size3) if j % 29 == 0]
    return dict(
        lru_maxsize=3, lru_key_kinds=['obj', 'int'], lru_int_keys=3, lru_int_n=1,
        lru_hists=['SSCSG', 'SGSSG', 'SCSSS', 'ISNCI'], lru_hist_maxsize=3,
        sym_range=(-100, 100), sym_group=16,
        sym_trees=size1 + size2 + sel3 + [_t(x) for x in ['okw(cnt(x),cnt(x))', 'add(cnt(x),cnt(x))', 'meth(cnt(x),cnt(x),cnt(x))']],
        flag_range=(0, 1), flag_leafvars=3,
        # '~' = that call is never cached, '!' = always cached, otherwise its cache_result_ flag is symbolic
        flag_sets=[((0, 1, 3), [_t(x) for x in ['okw(cnt(x),cnt(x))', 'add(mul~(x,x),cnt(x))', 'item(cnt(x),x)', 'attr(x,add(x,x))',
                                    'meth(x,x,cnt~(x))', 'pair(add~(x,x),cnt(x))', 'obj(x,okw(x,x))', 'add(cnt(x),cnt(x))',
                                    'okw(x,add~(cnt(x),cnt~(x)))', 'meth(cnt~(x),x,x)', 'item(x,okw~(x,x))',
                                    'okw(cnt(x),add~(cnt(x),x))', 'pair(cnt(cnt~(x)),x)']])],
        pickle_trees=[_t(x) for x in ['okw(cnt(x),cnt(x))', 'meth(x,mul(x,x),x)', 'item(x,add(x,x))', 'pair(cnt(x),attr(x,x))', 'add(okw(x,cnt(x)),x)', 'obj(cnt(x),meth~(x,x,x))']],
        hists={'cnt_cnt': (_t('cnt(x)'), _t('cnt!(0)'), 3), 'pair_add': (_t('pair~(x,cnt(0))'), _t('add!(cnt!(0),x)'), 3)},
        fn_prefill=[0, 128], fn_slack=2, timeout=150)
  return dict(
      lru_maxsize=4, lru_key_kinds=['obj', 'int'], lru_int_keys=4, lru_int_n=2,
      lru_hists=['SSCSG', 'SGSSG', 'SCSSS', 'ISNCI', 'SSSGS', 'SSGSG', 'SSCSS', 'SCSCS', 'GSGSG', 'SSSCG', 'SNSGS', 'SSSSG',
                 'SSSSSG', 'SSCSSG', 'SGSGSS'],
      lru_hist_maxsize=4,
      sym_range=(-1000, 1000), sym_trees=size1 + size2 + size3, sym_group=40,
      flag_range=(0, 2), flag_leafvars=3,
      flag_sets=[((0, 1, 2), size2 + [_t(x) for x in ['add(okw(x,mul~(x,x)),x)', 'meth~(cnt(x),x,item(x,x))', 'okw(cnt(x),add~(cnt(x),x))',
                                                   'pair(cnt(cnt(x)),cnt~(x))', 'okw(x,add(cnt(x),cnt(x)))', 'add(cnt(x),cnt(x))',
                                                   'okw(x,add~(cnt(x),cnt~(x)))', 'item(cnt(x),okw(x,x))', 'meth(x,cnt(x),cnt(x))']]),
                 ((0, 2, 3), size1 + [_t(x) for x in ['okw(cnt(x),cnt(x))', 'add(mul~(x,x),cnt(x))', 'pair(add~(x,x),cnt(x))', 'item(cnt(x),x)',
                                                   'attr(x,add(x,x))', 'meth(x,x,cnt~(x))']])],
      pickle_trees=size1 + size2 + [t for j, t in enumerate(size3) if j % 41 == 0],
      hists={'cnt_cnt': (_t('cnt(x)'), _t('cnt(0)'), 4), 'pair_add': (_t('pair~(x,cnt(0))'), _t('add!(cnt(0),1)'), 4),
             'okw_okw': (_t('okw(cnt~(x),0)'), _t('okw!(0,cnt~(x))'), 4), 'item_meth': (_t('item(x,cnt~(0))'), _t('meth!(x,1,cnt~(0))'), 3),
             'cntC_cntC_5ops': (_t('cnt!(x)'), _t('cnt!(0)'), 5)},
      fn_prefill=[0, 1, 100, 127, 128, 129], fn_slack=3, timeout=1200)


def run(tier):
  rep = common.Report('C17', tier, 'other',
                      'Bounded symbolic execution (CrossHair/z3) of the real lazy_fns / LruCache code. LruCache: one inductive step from an '
                      'arbitrary valid state (symbolic keys, values, recency order, maxsize, counters, operation) against a reference model with the '
                      'representation invariant in the post-state, plus bounded histories through the public API. Expressions: generated skeletons '
                      '(depth <= 3) over traced pure / stateful / order-sensitive callables compared with an eager evaluator; integer leaves, '
                      'cache_result_/lazy_result_ flags and make/clear histories are symbolic. "discharged" = "Confirmed over all paths"; '
                      'counterexamples are replayed concretely before being reported.')
  from ml_metrics._src.chainables import lazy_fns
  from ml_metrics._src.utils import func_utils
  rep.encoded(lazy_fns.LazyObject.new, lazy_fns.LazyObject.__call__, lazy_fns.LazyObject.__getattr__, lazy_fns.LazyObject.__getitem__,
              lazy_fns.LazyObject.__hash__, lazy_fns.LazyObject.__eq__, lazy_fns.LazyObject.result_, lazy_fns.LazyFn.new,
              lazy_fns.LazyFn.__hash__, lazy_fns.LazyFn.__eq__, lazy_fns.LazyFn.result_, lazy_fns._maybe_lru_cache, lazy_fns._maybe_make,
              lazy_fns.maybe_make, lazy_fns.maybe_unpickle, lazy_fns._Pickler.dumps, lazy_fns._Pickler.loads, lazy_fns.clear_cache,
              lazy_fns.clear_object, lazy_fns.trace, func_utils.LruCache.__getitem__, func_utils.LruCache.__setitem__,
              func_utils.LruCache.cache_insert, func_utils.LruCache.__contains__, func_utils.LruCache.__iter__, func_utils.LruCache.__len__,
              func_utils.LruCache.cache_clear, func_utils.LruCache.cache_info)
  p = params(tier)
  p['fn_bound'] = lazy_fns.cache_info().maxsize
  p['obj_bound'] = lazy_fns.object_info().maxsize
  timeout = p.pop('timeout')
  def names(ts):
    ns = [name(t) for t in ts]
    return ns if len(ns) <= 24 else f'{len(ns)} skeletons: ' + ' '.join(ns[:12]) + ' ... ' + ' '.join(ns[-4:])
  shown = {k: (names(v) if k.endswith('_trees') else v) for k, v in p.items() if k not in ('hists', 'flag_sets')}
  shown['flag_sets'] = [{'leaf_range': r[:2], 'distinct_leaf_vars': r[2], 'skeletons': names(ts)} for r, ts in p['flag_sets']]
  shown['sym_trees'] = f'{len(p["sym_trees"])} skeletons: all with <= 2 productions' + (
      ' and all with 3 productions' if tier != 'quick' else ' and every 29th of the 2254 3-production skeletons + 3 with the stateful callee in several argument positions')
  shown['hists'] = {k: (name(a), name(b), n) for k, (a, b, n) in p['hists'].items()}
  rep.bounds(**shown, per_condition_timeout_s=timeout,
             note='lru_step: n = 0..lru_maxsize distinct symbolic keys (kind obj: Key objects over ints in -1000..1000 with value equality and a '
                  'constant hash; kind int: plain ints below lru_int_keys, n <= lru_int_n) in symbolic recency order, maxsize max(n,1)..lru_maxsize, '
                  'symbolic values and hit/miss counters, one symbolic operation (get/set/contains/clear/cache_insert) with a symbolic key; '
                  'lru_hists: S=set G=get C=clear N=contains I=cache_insert from an empty cache, every key symbolic, maxsize 1..lru_hist_maxsize; productions: add mul okw(zeta=,alpha=) cnt(stateful) item(pair(..)[i]) attr(obj(..).a/.b) meth(obj(..).scaled(..)) '
                  'pair/obj(root only); sym_range/flag_range = leaf ranges; hists = (expr0, expr1, number of symbolic ops in {make0, make1, clear_cache}), leaves 0..1, a digit is a constant leaf, C/U after a production = always/never cached; '
                  'fn_bound/obj_bound are read from the library (128/1024)')
  rep.outside('expressions deeper than 3 productions / other callees', 'LruCache with maxsize > lru_maxsize in the step obligations (the real 128/1024 '
              'bounds are exercised only by the fn_bound/obj_bound histories)', 'non-integer leaves (1 == True == 1.0 share a cache key)',
              'cross-process behaviour of handles (same-process pickling only)', 'custom registered picklers, makeables registry, FnConfig, async helpers',
              'lazy_result_ on an inner node whose consumer is not a getattr/getitem/call chain (the consumer receives the handle by design)')
  rep.assume('CrossHair 0.0.110 + z3 sound for int/bool/list/dict semantics', 'CPython 3.12 semantics',
             'absl logging in lazy_fns/func_utils replaced by a no-op during symbolic runs (only feeds log messages)',
             'CrossHair short-circuiting of contracted functions (its model of hash()) disabled during symbolic runs: always call into (sound; avoids UNKNOWN paths)',
             'hashing (dict keys of the caches) and the pickle boundary realise symbolic ints: on those paths z3 enumerates the leaf values inside the '
             'stated ranges one by one; leaves stay fully symbolic only on paths without a cached call (sym_* obligations)',
             'pickle obligations: every input is made concrete by ordinary branches before dumps (the C pickler cannot serialise symbolic '
             'proxies), then the real code runs natively (untraced): an enumeration of the stated small ranges driven by the solver, not symbolic reasoning',
             'LruCache step/history obligations use Key objects (equality = that of a symbolic int, constant hash) so that z3 reasons about the equality '
             'pattern between keys; plain int keys (realised value by value by hash()) are covered for n <= lru_int_n',
             'fn_bound/obj_bound: the filler entries are concrete and are created natively (untraced); prefill size, number of fillers, touch, values are symbolic')
  only = os.environ.get('VF_ONLY')
  xh.run_module(rep, gen(p), 'c17_h', timeout, classify=classify, only=(lambda n: only in n) if only else None)
  return rep.finish()
