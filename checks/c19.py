"""C19 - re-batching conserves rows, order and column alignment.

Engine A: CrossHair executes the real rebatched_args/_concat/_pad/_batch_size (and the
TreeFn._iterate use of them) with every input batch size, the target size and aliasing
flags symbolic; the number of input batches, container kind, column count and padding
mode are enumerated by the generator.
"""
import os

from vf import common, xh

PRELUDE = '''
from ml_metrics._src.utils import iter_utils

class _Vec(list):
  """Pure-Python stand-in for the 1-D int ndarray `batch_sizes` (only what rebatched_args uses)."""
  @property
  def size(self): return len(self)
  def __iadd__(self, other):
    other = list(other)
    assert len(other) == len(self)
    for i, v in enumerate(other):
      self[i] = self[i] + v
    return self

class _NpShim:
  def __getattr__(self, name):
    import numpy
    return getattr(numpy, name)
  @staticmethod
  def zeros(n, dtype=int):
    return _Vec([0] * n)

if _VF_SYMBOLIC:
  iter_utils.np = _NpShim()   # symbolic ints cannot live in an int ndarray; concrete replay uses real numpy

def _mk(sizes, kind, ncol, alias):
  """Batches of `ncol` aligned columns; column c of row r holds r + 100*c. alias[j] => batch j is the
  very same object as batch j-1 (a stream may legitimately repeat a batch object)."""
  batches, c = [], 0
  for j, s in enumerate(sizes):
    if j and alias[j - 1] and s == len(batches[-1][0]):
      batches.append(batches[-1])
      continue
    cols = []
    for k in range(ncol):
      col = [r + 100 * k for r in range(c, c + s)]
      cols.append(tuple(col) if kind == 'tuple' else col)
    batches.append(tuple(cols))
    c += s
  return batches

def _rows(batches):
  return [[x for b in batches for x in b[k]] for k in range(len(batches[0]))] if batches else []

def _check(sizes, batch_size, kind, ncol, pad, alias, num_columns):
  batches = _mk(sizes, kind, ncol, alias)
  want = _rows(batches)
  snapshot = [tuple(list(col) for col in b) for b in batches]
  out = list(iter_utils.rebatched_args(iter(batches), batch_size, num_columns=num_columns, pad=pad))
  total = len(want[0]) if want else 0
  if total == 0:
    return out == []
  ok = all(len(b) == ncol for b in out)
  ok = ok and all(len(col) == batch_size for b in out[:-1] for col in b)
  ok = ok and len(out) == (total + batch_size - 1) // batch_size
  last = out[-1]
  n_last = total - batch_size * (len(out) - 1)
  ok = ok and 0 < n_last <= batch_size
  if pad is None:
    ok = ok and all(len(col) == n_last for col in last)
  else:
    ok = ok and all(len(col) == batch_size for col in last)
    ok = ok and all(list(col[n_last:]) == [pad] * (batch_size - n_last) for col in last)
    out = out[:-1] + [tuple(col[:n_last] for col in last)]
  for k in range(ncol):
    ok = ok and [x for b in out for x in b[k]] == want[k]
  ok = ok and all(type(col) is (tuple if kind == 'tuple' else list) for b in out for col in b)
  # the caller's batches are inputs, not scratch space
  ok = ok and [tuple(list(col) for col in b) for b in batches] == snapshot
  return ok
'''


def gen(ms, smax, bmax, kinds, ncols, pads, alias, alias_max_m=9):
  F = xh.fn
  s = [PRELUDE]
  smax_by_m, smax = smax, max(smax.values())
  for m in ms:
    sm = smax_by_m[m]
    for kind in kinds:
      for ncol in ncols:
        for pad in pads:
          for al in ([False, True] if (alias and m >= 2 and (m <= alias_max_m)) else [False]):
            args = [f's{j}: int' for j in range(m)] + ['bs: int'] + ([f'a{j}: bool' for j in range(m - 1)] if al else [])
            pre = ' and '.join([f'0 <= s{j} <= {sm}' for j in range(m)] + [f'1 <= bs <= {min(bmax, sm + 1)}'])
            sizes = '[' + ', '.join(f's{j}' for j in range(m)) + ']'
            aflags = '[' + ', '.join(f'a{j}' for j in range(m - 1)) + ']' if al else '[False] * 8'
            name = f'm{m}_{kind}_c{ncol}_{"pad" if pad is not None else "nopad"}{"_alias" if al else ""}'
            s.append(F(f'ob_rebatch_{name}', ', '.join(args), pre,
                       f'return _check({sizes}, bs, {kind!r}, {ncol}, {pad!r}, {aflags}, {ncol})'))
  # num_columns inferred from the first batch (num_columns=0), incl. the empty stream
  s.append(F('ob_rebatch_infer_columns', 's0: int, s1: int, bs: int', f'0 <= s0 <= {smax} and 0 <= s1 <= {smax} and 1 <= bs <= {bmax}',
             "return _check([s0, s1], bs, 'list', 2, None, [False], 0)"))
  # column alignment: a batch whose columns have different row counts is rejected before anything of it is emitted
  s.append(F('ob_rebatch_ragged_rejected', 's0: int, d: int, t: int, bs: int', f'0 <= s0 <= {smax} and 1 <= d <= 2 and 0 <= t <= {smax} and 1 <= bs <= {bmax}', """
      good = (list(range(s0)), list(range(100, 100 + s0)))
      bad = (list(range(s0, s0 + t)), list(range(100 + s0, 100 + s0 + t + d)))        # second column d rows longer
      out = []
      try:
        for b in iter_utils.rebatched_args(iter([good, bad]), bs, num_columns=2):
          out.append(b)
        return False                                                                  # ragged input must not pass silently
      except ValueError:
        pass
      rows0 = [x for b in out for x in b[0]]; rows1 = [x for b in out for x in b[1]]
      # whatever was emitted before the rejection are aligned rows of the good batch only
      return rows0 == list(range(len(rows0))) and rows1 == [100 + x for x in rows0] and len(rows0) <= s0"""))
  # numpy columns (np.concatenate / np.pad are C code): the sizes are decided by solver branches, then the library runs untraced
  # on concrete float arrays - rows are conserved exactly (values and dtype), padding is only appended
  s.append(F('ob_rebatch_numpy_pad', 's0: int, s1: int, bs: int, neg: bool', '0 <= s0 <= 3 and 0 <= s1 <= 3 and 1 <= bs <= 3', """
      def conc(x, hi):
        for v in range(hi + 1):
          if x == v: return v
        return hi
      s0 = conc(s0, 3); s1 = conc(s1, 3); bs = conc(bs, 3); padv = -1 if neg else 0
      import contextlib
      try:
        from crosshair.tracers import NoTracing as untraced
      except ImportError:
        untraced = contextlib.nullcontext
      with (untraced() if _VF_SYMBOLIC else contextlib.nullcontext()):
        import numpy
        rows = [0.25 + i for i in range(s0 + s1)]                       # non-integral floats
        col = lambda part, off: numpy.array([off + r for r in part], dtype=float)
        batches = [(col(rows[:s0], 0.0), col(rows[:s0], 100.0)), (col(rows[s0:], 0.0), col(rows[s0:], 100.0))]
        out = list(iter_utils.rebatched_args(iter(batches), bs, num_columns=2, pad=padv))
        flat0 = [float(x) for b in out for x in b[0]]
        flat1 = [float(x) for b in out for x in b[1]]
        n = s0 + s1
        ok = all(len(b[0]) == bs and len(b[1]) == bs for b in out)                       # every batch has the target size
        ok = ok and flat0[:n] == rows and flat1[:n] == [100.0 + r for r in rows]          # rows conserved exactly, columns aligned
        ok = ok and all(x == padv for x in flat0[n:]) and all(x == padv for x in flat1[n:]) and len(flat0) - n < bs
      return ok"""))
  s.append(F('ob_rebatch_empty_stream_infer', 'bs: int', f'1 <= bs <= {bmax}',
             "return list(iter_utils.rebatched_args(iter([]), bs)) == []"))
  s.append(F('ob_rebatch_passthrough', 's0: int, s1: int', f'0 <= s0 <= {smax} and 0 <= s1 <= {smax}', """
      b = _mk([s0, s1], 'list', 2, [False])
      out = list(iter_utils.rebatched_args(iter(b), 0))
      return len(out) == 2 and out[0] is b[0] and out[1] is b[1]"""))
  s.append(F('wit_rebatch_multi', 's0: int, s1: int, s2: int, bs: int',
             f'0 <= s0 <= {smax} and 0 <= s1 <= {smax} and 0 <= s2 <= {smax} and 1 <= bs <= {bmax}', """
      out = list(iter_utils.rebatched_args(iter(_mk([s0, s1, s2], 'list', 2, [False] * 2)), bs, num_columns=2))
      return not (len(out) >= 3 and len(out[-1][0]) < bs and s0 < bs and s1 > bs)"""))
  return '\n'.join(s)


PIPE = '''
from ml_metrics._src.chainables import transform
from ml_metrics._src.chainables import tree_fns

def _pipe(sizes, fbs, obs):
  """TreeTransform.apply with fn_batch_size / batch_size: the function is the identity on two columns."""
  batches, c = [], 0
  for s in sizes:
    batches.append({'x': list(range(c, c + s)), 'y': [r + 100 for r in range(c, c + s)]})
    c += s
  seen = []
  def fn(x, y):
    seen.append(len(x))
    return x, y
  t = transform.TreeTransform.new().apply(fn=fn, input_keys=('x', 'y'), output_keys=('x', 'y'),
                                          fn_batch_size=fbs, batch_size=obs)
  out = list(t.make().iterate(batches))
  xs = [v for b in out for v in b['x']]
  ys = [v for b in out for v in b['y']]
  ok = xs == list(range(c)) and ys == [v + 100 for v in range(c)]
  ok = ok and all(len(b['x']) == len(b['y']) for b in out)
  if fbs and c:
    ok = ok and all(n == fbs for n in seen[:-1]) and 0 < seen[-1] <= fbs and sum(seen) == c
  if obs and c:
    ok = ok and all(len(b['x']) == obs for b in out[:-1]) and 0 < len(out[-1]['x']) <= obs
  return ok
'''


def gen_pipe(ms, smax, pairs):
  F = xh.fn
  s = [PRELUDE, PIPE]
  for m in ms:
    for fbs, obs in pairs:       # (fn_batch_size, batch_size) enumerated; input batch sizes symbolic
      args = ', '.join(f's{j}: int' for j in range(m))
      pre = ' and '.join(f'0 <= s{j} <= {smax}' for j in range(m))
      sizes = '[' + ', '.join(f's{j}' for j in range(m)) + ']'
      s.append(F(f'ob_pipeline_rebatch_m{m}_f{fbs}_o{obs}', args, pre, f'return _pipe({sizes}, {fbs}, {obs})'))
  return '\n'.join(s)


def run(tier):
  rep = common.Report('C19', tier, 'other',
                      'Bounded symbolic execution (CrossHair/z3) of the real rebatched_args/_concat/_pad/_batch_size and of '
                      'TreeFn._iterate with fn_batch_size/batch_size: input batch sizes, target size and batch-object aliasing '
                      'are symbolic; "discharged" = CrossHair "Confirmed over all paths". Counterexamples are replayed with real numpy.')
  from ml_metrics._src.utils import iter_utils
  from ml_metrics._src.chainables import tree_fns
  rep.encoded(iter_utils.rebatched_args, iter_utils._concat, iter_utils._pad, iter_utils._batch_size, tree_fns.TreeFn._iterate)
  if tier == 'quick':
    p = dict(ms=[1, 2, 3], smax={1: 5, 2: 4, 3: 2}, bmax=4, kinds=['list', 'tuple'], ncols=[2], pads=[None, -1], alias=True, alias_max_m=2)
    pp = dict(ms=[2], smax=2, pairs=[(0, 0), (0, 2), (1, 1), (2, 2), (1, 2), (2, 1), (3, 2)])
    timeout = 300
  else:
    # sized on the unchanged tree: aliasing variants with 3+ input batches (sizes <= 4, target <= 5) needed > 2800 CPU s each and did not finish
    p = dict(ms=[0, 1, 2, 3, 4], smax={0: 0, 1: 8, 2: 5, 3: 3, 4: 2}, bmax=4, kinds=['list', 'tuple'], ncols=[1, 2, 3], pads=[None, -1], alias=True, alias_max_m=2)
    pp = dict(ms=[1, 2, 3], smax=4, pairs=[(0, 0), (0, 1), (0, 2), (0, 3), (1, 1), (2, 2), (1, 2), (2, 1), (3, 2), (2, 3), (4, 3)])
    timeout = 1800
  rep.bounds(rebatched_args=p, pipeline=pp, per_condition_timeout_s=timeout,
             note='ms = numbers of input batches; each batch size 0..smax, target 1..bmax (0 = pass-through); '
                  'alias: a batch may be the same object as its predecessor')
  rep.outside('numpy-array columns beyond ob_rebatch_numpy_pad (two float columns, two input batches of <= 3 rows, sizes concretised by solver branches, library run untraced)', 'more input batches / larger sizes than the bounds',
              'what happens after a ragged batch was rejected (the rejection itself is an obligation: ob_rebatch_ragged_rejected)')
  rep.assume('np.zeros(int) batch-size vector replaced by a pure-Python int vector during symbolic runs (stub: _NpShim); '
             'concrete replays use real numpy', 'CrossHair/z3 sound for int/list semantics')
  only = os.environ.get('VF_ONLY')
  flt = (lambda n: only in n) if only else None
  xh.run_module(rep, gen(**p), 'c19_h', timeout, only=flt)
  xh.run_module(rep, gen_pipe(**pp), 'c19_pipe', timeout, only=flt)
  return rep.finish()
