"""C09 - sharding partitions a data source exactly; merged sequences behave like their concatenation.

Engine A: CrossHair runs the real SequenceDataSource / SequenceIterator / ShardedIterable /
DataIterator / MergedSequences / _RangeIterator on an abstract sequence whose i-th element
is i. n, k, shard indices, offsets, sub-sequence lengths, indices and slice bounds are
symbolic ints; the nesting depth / number of sub-sequences / fixed k of the "union"
obligations are enumerated by the generator (complete inside the bound).
"""
from vf import common, xh

PRELUDE = '''
from ml_metrics._src.chainables import io
from ml_metrics._src.utils import iter_utils

class Seq:
  """Random-access sequence of length n whose i-th element is base+i (no numpy)."""
  def __init__(self, n, base=0): self.n = n; self.base = base
  def __len__(self): return self.n
  def __getitem__(self, i):
    if isinstance(i, slice):
      start, stop, step = i.indices(self.n)
      return [self.base + j for j in range(start, stop, step)]
    if i < 0: i += self.n
    if not 0 <= i < self.n: raise IndexError('seq index out of range')
    return self.base + i

def _merged(lens, batch):
  seqs, base = [], 0
  for l in lens:
    seqs.append(Seq(l, base)); base += l
  return iter_utils.MergedSequences(seqs, max_batch_size=batch), base

def _get(fn):
  try: return ('ok', fn())
  except IndexError: return ('IndexError', None)
'''


def gen(nmax, kmax, ks_union, depth3, lens, lens_any, batches, k2s, offmax):
  F = xh.fn
  s = [PRELUDE]
  A = s.append
  nk = f'0 <= n <= {nmax} and 1 <= k <= {kmax} and 0 <= i < k'
  A(F('ob_shard_bounds', 'n: int, k: int, i: int', nk, """
      sh = io.SequenceDataSource(Seq(n)).shard(i, k)
      ok = sh.start <= sh.end and (sh.end - sh.start) in (n // k, n // k + 1)
      ok = ok and (i > 0 or sh.start == 0) and (i < k - 1 or sh.end == n)
      return ok and len(sh) == sh.end - sh.start"""))
  A(F('ob_shard_adjacent', 'n: int, k: int, i: int', f'0 <= n <= {nmax} and 2 <= k <= {kmax} and 0 <= i < k - 1', """
      ds = io.SequenceDataSource(Seq(n))
      a, b = ds.shard(i, k), ds.shard(i + 1, k)
      return a.end == b.start and len(a) >= len(b) and len(a) - len(b) <= 1"""))
  A(F('ob_shard_elements', 'n: int, k: int, i: int', nk, """
      sh = io.SequenceDataSource(Seq(n)).shard(i, k)
      got = list(sh)
      return got == list(range(sh.start, sh.end)) and len(sh) == len(got)"""))
  A(F('wit_shard_nonempty', 'n: int, k: int, i: int', nk, """
      sh = io.SequenceDataSource(Seq(n)).shard(i, k)
      return not (len(list(sh)) >= 2 and i >= 1)"""))
  A(F('ob_shard_from_state', 'n: int, k: int, i: int, off: int', nk + f' and 0 <= off <= {offmax}', """
      ds = io.SequenceDataSource(Seq(n))
      sh = ds.shard(i, k, off) if off <= len(ds.shard(i, k)) else ds.shard(i, k)
      re = ds.from_state(sh.state)
      return (re.start, re.end) == (sh.start, sh.end) and list(re) == list(sh)"""))
  A(F('ob_roundrobin', 'n: int, k: int, i: int', nk, """
      src = io.ShardedIterable(list(range(n)))
      sh = src.shard(i, k)
      got = list(sh)
      re = list(src.from_state(sh.state))
      return got == [x for x in range(n) if x % k == i] and re == got"""))
  A(F('wit_roundrobin', 'n: int, k: int, i: int', nk, """
      return not (len(list(io.ShardedIterable(list(range(n))).shard(i, k))) >= 2 and i == 1)"""))
  for k2 in k2s:
    pre = f'0 <= n <= {nmax} and 1 <= k1 <= {kmax} and 0 <= i1 < k1 and 0 <= i2 < {k2}'
    A(F(f'ob_nested_from_state_k{k2}', 'n: int, k1: int, i1: int, i2: int', pre, f"""
      ds = io.SequenceDataSource(Seq(n))
      sh = ds.shard(i1, k1).shard(i2, {k2})
      re = ds.from_state(sh.state)
      return (re.start, re.end) == (sh.start, sh.end) and list(re) == list(sh)"""))
    A(F(f'ob_nested_iter_from_state_k{k2}', 'n: int, k1: int, i1: int, i2: int', pre, f"""
      sh = io.SequenceDataSource(Seq(n)).shard(i1, k1).shard(i2, {k2})
      it = sh.iterate()
      re2 = it.from_state(it.state)
      return list(re2) == list(range(sh.start, sh.end))"""))
    A(F(f'ob_nested_bounds_k{k2}', 'n: int, k1: int, i1: int, i2: int', pre, f"""
      p = io.SequenceDataSource(Seq(n)).shard(i1, k1)
      c = p.shard(i2, {k2})
      m = len(p)
      ok = p.start <= c.start <= c.end <= p.end and len(c) in (m // {k2}, m // {k2} + 1)
      ok = ok and (i2 > 0 or c.start == p.start) and (i2 < {k2} - 1 or c.end == p.end)
      if i2 < {k2} - 1:
        d = p.shard(i2 + 1, {k2})
        ok = ok and c.end == d.start and 0 <= len(c) - len(d) <= 1
      return ok"""))
  for k in ks_union:
    A(F(f'ob_union_k{k}', 'n: int', f'0 <= n <= {nmax}', f"""
      ds = io.SequenceDataSource(Seq(n))
      shards = [ds.shard(i, {k}) for i in range({k})]
      flat = [x for sh in shards for x in sh]
      return flat == list(range(n)) and sum(len(sh) for sh in shards) == n"""))
    A(F(f'ob_rr_union_k{k}', 'n: int', f'0 <= n <= {nmax}', f"""
      src = io.ShardedIterable(list(range(n)))
      flat = sorted(x for i in range({k}) for x in src.shard(i, {k}))
      return flat == list(range(n))"""))
  if depth3:
    A(F('ob_nested3', 'n: int, i1: int, i2: int, k3: int, i3: int',
        f'0 <= n <= {nmax} and 0 <= i1 < 3 and 0 <= i2 < 2 and 1 <= k3 <= 3 and 0 <= i3 < k3', """
      ds = io.SequenceDataSource(Seq(n))
      p = ds.shard(i1, 3).shard(i2, 2)
      c = p.shard(i3, k3)
      union = [x for j in range(k3) for x in p.shard(j, k3)]
      re = ds.from_state(c.state)
      return union == list(p) and list(re) == list(c) and list(c) == list(range(c.start, c.end))"""))
  # merged sequences: number of sub-sequences is enumerated, their lengths are symbolic
  for nseq, lens_max in sorted(lens.items()):
    args = ', '.join(f'l{j}: int' for j in range(nseq))
    pre = ' and '.join(f'0 <= l{j} <= {lens_max}' for j in range(nseq))
    ll = '[' + ', '.join(f'l{j}' for j in range(nseq)) + ']'
    tot = ' + '.join(f'l{j}' for j in range(nseq))
    A(F(f'ob_merged_index_{nseq}', f'{args}, j: int, batch: int',
        [pre + ' and 1 <= batch <= 4', f'-({tot}) - 2 <= j <= ({tot}) + 2'], f"""
      m, total = _merged({ll}, batch)
      ref = list(range(total))
      return len(m) == total and _get(lambda: m[j]) == _get(lambda: ref[j])"""))
    A(F(f'ob_merged_iter_{nseq}', f'{args}, batch: int', pre + ' and 1 <= batch <= 4', f"""
      m, total = _merged({ll}, batch)
      return list(m) == list(range(total)) and list(m[:]) == list(range(total))"""))
    pre_any = ' and '.join(f'0 <= l{j} <= {lens_any[nseq]}' for j in range(nseq))
    for batch in batches:
      A(F(f'ob_merged_slice_inrange_{nseq}_b{batch}', f'{args}, a: int, b: int',
          [pre, f'0 <= a <= b <= ({tot})'], f"""
      m, total = _merged({ll}, {batch})
      ref = list(range(total))
      return list(m[a:b]) == ref[a:b]"""))
      A(F(f'ob_merged_slice_anybounds_{nseq}_b{batch}', f'{args}, a: int, b: int',
          [pre_any, f'-({tot}) - 1 <= a <= ({tot}) + 1 and -({tot}) - 1 <= b <= ({tot}) + 1'], f"""
      m, total = _merged({ll}, {batch})
      ref = list(range(total))
      return list(m[a:b]) == ref[a:b]"""))
      A(F(f'ob_merged_slice_open_{nseq}_b{batch}', f'{args}, a: int',
          pre + f' and -({tot}) - 2 <= a <= ({tot}) + 2', f"""
      m, total = _merged({ll}, {batch})
      ref = list(range(total))
      return list(m[a:]) == ref[a:] and list(m[:a]) == ref[:a]"""))
    A(F(f'wit_merged_slice_{nseq}', f'{args}, a: int, b: int', pre + f' and 0 <= a <= b <= {lens_max * nseq}', f"""
      m, total = _merged({ll}, 2)
      return not (len(list(m[a:b])) >= 2 and a >= 1)"""))
  return '\n'.join(s)


def classify(name, call):
  return name


def run(tier):
  import os
  rep = common.Report('C09', tier, 'other',
                      'Bounded symbolic execution (CrossHair/z3) of the real sharding and merged-sequence code: '
                      'every obligation is a contract function over symbolic ints; "discharged" means CrossHair '
                      'reported "Confirmed over all paths" (all feasible paths inside the pre: bounds explored, '
                      'z3 proved the postcondition on each). Counterexamples are replayed concretely before being reported.')
  from ml_metrics._src.chainables import io
  from ml_metrics._src.utils import iter_utils
  rep.encoded(io.SequenceDataSource.shard, io.SequenceDataSource.from_state, io.SequenceDataSource.__len__,
              io.SequenceIterator.__init__, io.SequenceIterator.__next__, io.SequenceIterator.state,
              io.ShardedIterable.shard, io.DataIterator.__next__, iter_utils.MergedSequences._index,
              iter_utils.MergedSequences.slice, iter_utils.MergedSequences.__getitem__,
              iter_utils._RangeIterator.__next__)
  if tier == 'quick':
    p = dict(nmax=7, kmax=4, ks_union=[1, 2, 3, 4], depth3=False, lens={1: 4, 2: 2, 3: 1}, lens_any={1: 2, 2: 1, 3: 1}, batches=[1, 2], k2s=[2, 3], offmax=2)
    timeout = 300
  else:
    # sized so that the slowest obligation needs < 50% of the timeout on the unchanged tree (nmax=16 / k2s up to 4 / lens[4]=2 did not finish)
    p = dict(nmax=12, kmax=6, ks_union=[1, 2, 3, 4, 5, 6, 7, 8], depth3=True, lens={1: 4, 2: 3, 3: 2, 4: 1}, lens_any={1: 4, 2: 2, 3: 1, 4: 1}, batches=[1, 2, 3], k2s=[1, 2, 3], offmax=2)
    timeout = 1800
  rep.bounds(**p, per_condition_timeout_s=timeout,
             note='n = source length, k = shard count (k>n included), nesting depth 2 (3 in thorough), '
                  'lens = {number of sub-sequences: max length of each} (empty allowed), read-ahead batch sizes as listed, indices/slice bounds incl. negative and out of range')
  rep.outside('lengths/shard counts beyond the bounds', 'numpy-array backed sequences (abstract Seq stands in; only len/getitem are used by the code)',
              'slices with a step (rejected by the implementation with NotImplementedError)')
  rep.assume('CrossHair 0.0.110 + z3 are sound for int/list/slice semantics', 'CPython 3.12 semantics')
  only = os.environ.get('VF_ONLY')
  xh.run_module(rep, gen(**p), 'c09_h', timeout, classify=classify,
                only=(lambda n: only in n) if only else None)
  return rep.finish()
