"""C11 - merging is associative, order-insensitive and never damages its operands.

Engine S (symx): states a, b, c are built by the real `add` from symbolic batches (incl. the fresh, empty
state); per path z3 proves the algebraic laws on the *results*:
  assoc      (a+b)+c == a+(b+c)
  commute    a+b == b+a                       (order-insensitive accumulators)
  neutral    fresh+a == a == a+fresh
  operand    after a.merge(b): b still reports its own result; a later a.add(x) does not leak into b and
             a later b.add(y) does not leak into a   (aliasing is observable: numpy buffers are really shared/mutated)
  reread     result() twice is identical and does not disturb a following add
"""
import os
import random

import numpy as np

from vf import common, srun, symx
from checks import metric_specs

SPECS = {}


def _spec(name, tier):
  if not SPECS:
    for s in metric_specs.specs('laws'):
      SPECS[s.name] = s
    for s in extra_specs():
      SPECS[s.name] = s
  return SPECS[name]


def extra_specs():
  from ml_metrics._src.aggregates import rolling_stats as rs
  ROLL = metric_specs.ROLL
  def fss_make():
    return rs.FixedSizeSample(max_size=2, seed=0)
  # states are constructed directly (bypassing Algorithm L in add): reservoir of symbolic values, reviewed count
  return [metric_specs.Spec('FixedSizeSample', fss_make, lambda c, i: (c.real(f'x{i}'),),
                            lambda m: (sorted_multiset(m.result()), m.num_samples_reviewed), ROLL,
                            note='reservoir states constructed directly; RNG is a nondeterministic stub; only size/membership/reviewed-count observable')]


def sorted_multiset(xs):
  return list(xs)


def snap(x):
  """Deep snapshot of an observable (proxies are immutable; containers/arrays are copied)."""
  import dataclasses
  if isinstance(x, np.ndarray):
    return np.array(x, copy=True)
  if isinstance(x, dict):
    return {k: snap(v) for k, v in x.items()}
  if isinstance(x, list):
    return [snap(v) for v in x]
  if isinstance(x, tuple):
    t = [snap(v) for v in x]
    try:
      return type(x)(t) if type(x) is tuple else type(x)(*t)
    except TypeError:
      return tuple(t)
  if dataclasses.is_dataclass(x) and not isinstance(x, type):
    import copy
    return copy.copy(x)
  return x


def make_build(spec, law, sizes):
  na, nb, nc = sizes

  def build(c):
    need = {'assoc': (na, nb, nc, 0), 'commute': (na, nb, 0, 0), 'neutral': (na, 0, 0, 0),
            'operand': (na, nb, 0, 1), 'operand0': (na, nb, 0, 1), 'reread': (na, nb, 0, 1), 'nary': (na, nb, nc, 1)}[law]
    rows, k = [], 0
    for cnt in need:
      rows.append([spec.gen(c, k + j) for j in range(cnt)])
      k += cnt
    ra, rb, rc, rx = rows

    def st(rs_):
      m = spec.make()
      if rs_:
        m.add(*spec.to_batch(rs_))
      return m

    def merge(x, y):
      if isinstance(x, metric_specs._AggAcc):
        out = metric_specs._AggAcc(x.fn)
        out.state = x.fn.merge_states([x.state, y.state])
        return out
      x.merge(y)
      return x

    O = lambda m: snap(spec.obs(m))
    out = {}

    def guarded(f):
      try:
        return f()
      except Exception as e:  # pylint: disable=broad-exception-caught
        return ('EXC', type(e).__name__)

    if law == 'assoc':
      out['left'] = guarded(lambda: O(merge(merge(st(ra), st(rb)), st(rc))))
      out['right'] = guarded(lambda: O(merge(st(ra), merge(st(rb), st(rc)))))
    elif law == 'commute':
      out['left'] = guarded(lambda: O(merge(st(ra), st(rb))))
      out['right'] = guarded(lambda: O(merge(st(rb), st(ra))))
    elif law == 'neutral':
      base = guarded(lambda: O(st(ra)))
      out['left'] = (guarded(lambda: O(merge(st([]), st(ra)))), guarded(lambda: O(merge(st(ra), st([])))))
      out['right'] = (base, base)
    elif law == 'operand':
      def run():
        a, b = st(ra), st(rb)
        b_before = O(st(rb))                 # independent twin of b
        a2 = merge(a, b)
        r1 = O(b)
        if not isinstance(a2, metric_specs._AggAcc) or True:
          a2.add(*spec.to_batch(rx))         # later update of the receiver must not leak into the operand
        r2 = O(b)
        b.add(*spec.to_batch(rc or rx))      # later update of the operand must not leak into the receiver
        r3 = O(a2)
        twin = merge(st(ra), st(rb)); twin.add(*spec.to_batch(rx))
        return (r1, r2, r3), (b_before, b_before, O(twin))
      res = guarded(run)
      out['left'], out['right'] = res if res[0] != 'EXC' else (res, None)
    elif law == 'operand0':
      # the receiver is the FRESH accumulator (what merge_states([create_state(), s1, s2, ...]) does): it may not adopt the
      # operand's buffers - later merges / adds into the receiver must not change what the operand reports
      def run():
        e, b = st([]), st(rb)
        b_before = O(st(rb))
        e2 = merge(e, b)
        r1 = O(b)
        e2.add(*spec.to_batch(rx))
        r2 = O(b)
        e2 = merge(e2, st(ra))
        r3 = O(b)
        twin = merge(st([]), st(rb)); twin.add(*spec.to_batch(rx)); twin = merge(twin, st(ra))
        return (r1, r2, r3, O(e2)), (b_before, b_before, b_before, O(twin))
      res = guarded(run)
      out['left'], out['right'] = res if res[0] != 'EXC' else (res, None)
    elif law == 'nary':
      # one n-ary merge_states call over four states (what a sharded run does): the result is the left fold and none of the
      # merged-in states 2..4 is modified
      from ml_metrics._src.aggregates import base as agg_base
      def run():
        ms = [st(ra), st(rb), st(rc), st(rx)]
        if isinstance(ms[0], metric_specs._AggAcc):
          out_ = metric_specs._AggAcc(ms[0].fn)
          out_.state = ms[0].fn.merge_states([m.state for m in ms])
        else:
          out_ = agg_base.MergeableMetricAggFn.merge_states(None, ms)      # `self` is not used by the real method
        twin = merge(merge(merge(st(ra), st(rb)), st(rc)), st(rx))
        return (O(out_), O(ms[1]), O(ms[2]), O(ms[3])), (O(twin), O(st(rb)), O(st(rc)), O(st(rx)))
      res = guarded(run)
      out['left'], out['right'] = res if res[0] != 'EXC' else (res, None)
    elif law == 'reread':
      def run():
        a = merge(st(ra), st(rb))
        r1 = O(a); r2 = O(a)
        a.add(*spec.to_batch(rx))
        r3 = O(a)
        twin = merge(st(ra), st(rb)); twin.add(*spec.to_batch(rx))
        return (r1, r3), (r2, O(twin))
      res = guarded(run)
      out['left'], out['right'] = res if res[0] != 'EXC' else (res, None)
    return out
  return build


def fss_build(law):
  """FixedSizeSample with directly constructed states (max_size 2): membership/size/count laws under a nondeterministic RNG."""
  from ml_metrics._src.aggregates import rolling_stats as rs

  def build(c):
    xs = [c.real(f'x{i}') for i in range(4)]
    def st(vals, reviewed):
      return rs.FixedSizeSample(max_size=2, seed=0, _reservoir=list(vals), _num_samples_reviewed=reviewed)
    a, b = st(xs[:2], 3), st(xs[2:4], 2)
    b_res_before = list(b.reservoir)
    a.merge(b)
    res = a.result()
    out = {}
    inputs = xs
    member = [symx.SBool(_or([symx.eq_claim(r, x) for x in inputs])) if symx.has_sym(r) else any(r == x for x in inputs) for r in res]
    out['left'] = (len(res), a.num_samples_reviewed, [_truth(m) for m in member], len(b.reservoir), list(b.reservoir))
    out['right'] = (2, 5, [True] * len(res), 2, b_res_before)
    return out
  return build


def _or(ts):
  import z3
  return z3.Or(*ts)


def _truth(m):
  return m


class StubRng:
  """Nondeterministic RNG: every draw is a fresh symbolic value constrained only by its documented range."""
  n = 0

  def uniform(self, low=0.0, high=1.0, size=None):
    StubRng.n += 1
    c = symx.ctx()
    if isinstance(c, srun.ConstCtx) and not c.symbolic_consts:
      return c.rng.uniform(low, high) if c.rng else 0.5
    v = c.real(f'rng_u{StubRng.n}')
    c.assume((v.val >= low) if True else None)
    c.assume(v.val < high)
    return v

  def integers(self, low, high=None, size=None):
    StubRng.n += 1
    if high is None:
      low, high = 0, low
    if isinstance(high, symx.SV):
      high = high.concretize()
    c = symx.ctx()
    return c.int(f'rng_i{StubRng.n}', int(low), int(high) - 1)


def worker(job):
  name, law, sizes, tier, seed = job
  spec = _spec(name, tier)
  mods = metric_specs.modules_of(spec)
  fss = name == 'FixedSizeSample'
  build = fss_build(law) if fss else make_build(spec, law, sizes)

  def scn(c):
    StubRng.n = 0
    with symx.patched(*mods):
      if fss:
        import types as _t
        from ml_metrics._src.aggregates import rolling_stats as rs
        fac = rs.np
        fac.random = _t.SimpleNamespace(default_rng=lambda seed=None: StubRng())
      out = build(c)
    return [(law, symx.eq_claim(out['left'], out['right']))]
  res = symx.explore(scn, max_paths=4000 if tier == 'quick' else 40000, timeout_s=240 if tier == 'quick' else 3000)
  failed = []
  for claim, values, prefix in res.failed[:3]:
    if fss:
      # the RNG is part of the model: replay by checking the operand directly on the real class (no stub needed)
      from ml_metrics._src.aggregates import rolling_stats as rs
      a = rs.FixedSizeSample(max_size=2, seed=0, _reservoir=[1.0, 2.0], _num_samples_reviewed=3)
      b = rs.FixedSizeSample(max_size=2, seed=0, _reservoir=[3.0, 4.0], _num_samples_reviewed=2)
      class ScriptRng:       # the model's RNG draws, in the order the real code consumes them during merge
        def __init__(self, vals):
          self.u = [v for k, v in sorted(((int(k[5:]), v) for k, v in vals.items() if k.startswith('rng_u')))]
          self.i = [v for k, v in sorted(((int(k[5:]), v) for k, v in vals.items() if k.startswith('rng_i')))]
          self.u = self.u[2:]   # the first two uniform draws were consumed by the two __post_init__ calls
        def uniform(self, *a_, **k_): return self.u.pop(0) if self.u else 0.5
        def integers(self, n, *a_, **k_): return min(self.i.pop(0), n - 1) if self.i else 0
      a._rng = ScriptRng(values)
      a.merge(b)
      bad = (len(a.result()) != 2 or a.num_samples_reviewed != 5 or not set(a.result()) <= {1.0, 2.0, 3.0, 4.0} or b.reservoir != [3.0, 4.0])
      failed.append({'claim': claim, 'values': values, 'reproduced': bad,
                     'detail': f'real class: merged={a.result()} reviewed={a.num_samples_reviewed} operand reservoir after merge={b.reservoir}'})
      continue
    try:
      out = srun.run_concrete(build, dict(values))
      ok = symx.concrete_close(out['left'], out['right'])
      failed.append({'claim': claim, 'values': values, 'reproduced': not ok, 'detail': f"left={out['left']!r} right={out['right']!r}"[:600]})
    except Exception as e:  # pylint: disable=broad-exception-caught
      failed.append({'claim': claim, 'values': values, 'reproduced': False, 'detail': f'replay raised {type(e).__name__}: {e}'})
  tv = {'runs': 0, 'agree': 0, 'disagreements': []}
  if not fss:
    rng = random.Random(seed * 7919 + len(name))
    vals = {}
    try:
      sym = srun.run_const_symbolic(build, vals, mods, rng=rng)
      con = srun.run_concrete(build, dict(vals))
      tv['runs'] += 1
      if all(symx.concrete_close(sym[k], con[k]) for k in con):
        tv['agree'] += 1
      else:
        tv['disagreements'].append({'values': vals, 'facade': repr(sym)[:200], 'numpy': repr(con)[:200]})
    except symx.Unsupported:
      pass
    except Exception as e:  # pylint: disable=broad-exception-caught
      tv['runs'] += 1
      tv['disagreements'].append({'values': vals, 'error': f'{type(e).__name__}: {e}'})
  return {'job': [name, law, list(sizes)], 'paths': res.paths, 'cut': res.cut, 'cut_reasons': res.cut_reasons, 'claims': res.claims,
          'discharged': res.discharged, 'failed': failed, 'unknown': res.unknown, 'stats': res.stats, 'tv': tv, 'witness': res.paths > 0,
          'samples': [{'metric': name, 'law': law, 'batch sizes of a,b,c': list(sizes), 'paths': res.paths, 'claims_proved_unsat': res.discharged}]}


def replay(data):
  """./run.py C11 --replay FILE : re-runs the recorded law on the recorded values with real numpy on the current /repo."""
  import ast
  job = ast.literal_eval(data['job']) if isinstance(data['job'], str) else data['job']
  values = ast.literal_eval(data['values']) if isinstance(data['values'], str) else data['values']
  name, law, sizes = job
  if name == 'FixedSizeSample':
    print('FixedSizeSample counterexamples depend on the RNG stub; re-run ./run.py C11 --only FixedSizeSample'); return 2
  for s_ in metric_specs.specs('laws') + extra_specs():
    SPECS[s_.name] = s_
  out = srun.run_concrete(make_build(SPECS[name], law, tuple(sizes)), dict(values))
  ok = symx.concrete_close(out['left'], out['right'])
  print(f"left={out['left']!r}\nright={out['right']!r}"[:1500])
  print('NOT-REPRODUCED' if ok else 'REPRODUCED')
  return 0 if ok else 1


# four symbolic rows exceed the quick path budget (4000) for these; the thorough tier (40000 paths) runs them
NARY_HEAVY = ('ConfusionMatrixMulticlassMicro', 'ConfusionMatrixMulticlassMacro', 'ThresholdedRetrieval', 'TopKConfusionMatrix', 'SamplewiseClassification')


def classify(r, f):
  return f"{r['job'][0]}:{r['job'][1]}"


def run(tier):
  rep = common.Report('C11', tier, 'other',
                      'Bounded symbolic execution (symx) of the real add/merge/result code: states a,b,c are built from symbolic batches; z3 proves, per path, '
                      'associativity, commutativity (order-insensitive accumulators), neutrality of the fresh state on both sides, non-interference between receiver '
                      'and operand after a merge (real shared numpy buffers make aliasing observable), and repeatable result(). Models are replayed concretely.')
  specs = metric_specs.specs('laws') + extra_specs()
  for s in specs:
    SPECS[s.name] = s
  only = os.environ.get('VF_ONLY')
  jobs = []
  shapes = [(1, 1, 1)] if tier == 'quick' else [(1, 1, 1), (2, 1, 1), (1, 2, 1)]
  for s in specs:
    if only and only not in s.name:
      continue
    if s.name == 'FixedSizeSample':
      jobs.append((s.name, 'operand', (2, 2, 0), tier, common.seed()))
      continue
    if s.name.startswith('TopKWordNGrams_k2') or s.name == 'TopKRetrievalRagged':
      continue   # ragged rankings: the k-list truncation defect is recorded under C01 (known finding) and would only repeat here
    for law in ('assoc', 'commute', 'neutral', 'operand', 'operand0', 'reread', 'nary'):
      if law == 'commute' and not s.order_insensitive:
        continue
      for sh in shapes:
        if law == 'nary' and (sh != (1, 1, 1) or (tier == 'quick' and s.name in NARY_HEAVY)):
          continue
        jobs.append((s.name, law, sh, tier, common.seed()))
  rep.bounds(batch_sizes_of_a_b_c=shapes, laws=['assoc', 'commute', 'neutral', 'operand', 'operand0 (fresh receiver)', 'reread', 'nary (one merge_states call over 4 states)'], metrics=[s.name for s in specs],
             note='each state is built from one batch of the given size by the real add(); the empty state is the freshly made accumulator')
  rep.outside('floating-point rounding', '+-inf intermediate values (cut paths counted)', 'states built from more than 2 rows per batch',
              'FixedSizeSample: only the operand/size/membership/reviewed-count law with directly constructed reservoirs')
  rep.assume('numpy facade validated against real numpy on random constants per job', 'np.random.default_rng replaced by a nondeterministic stub for FixedSizeSample')
  from ml_metrics._src.aggregates import rolling_stats as rs, classification as cl, retrieval as rt, base, utils as au
  rep.encoded(base.CallableMetric.add, base.MergeableMetricAggFn.merge_states, rs.Mean.merge, rs.MeanAndVariance.merge, rs.MinMaxAndCount.merge, rs.Histogram.merge,
              rs.Histogram.result, rs.Counter.merge, rs.UnboundedSampler.merge, rs.ValueAccumulator.merge, rs._R2TjurBase.merge, rs.RRegression.merge,
              rs.SymmetricPredictionDifference.merge, rs.FixedSizeSample.merge, rs.FixedSizeSample._merge_reservoirs, au.MeanState.merge, au.TupleMeanState.merge,
              au.FrequencyState.merge, cl._ConfusionMatrix.__iadd__, cl.ConfusionMatrixAggFn.merge_states, cl.SamplewiseClassification.merge, rt.TopKRetrieval.merge)
  results = srun.run_jobs(worker, jobs)
  srun.absorb(rep, results, classify)
  return rep.finish()
