"""temporary driver for checks/c06_seq.py (to be removed)"""
import os
from vf import common, xh
from checks import c06_seq as S

def run(tier):
  rep = common.Report('TMP_C06', tier, 'other', 'tmp driver for c06_seq')
  rep.bounds(**S.bounds(tier)); rep.outside(*S.OUTSIDE); rep.assume(*S.ASSUME)
  only = os.environ.get('VF_ONLY')
  skip_raise = os.environ.get('C06_SKIP_RAISE') == '1'
  def sel(n):
    if skip_raise and n.startswith('ob_released_on_raise'): return False
    return only in n if only else True
  xh.run_module(rep, S.gen(tier), 'c06seq_h', 150 if tier == 'quick' else 1200, classify=S.classify, only=sel)
  return rep.finish()
