"""C05 - failures and stop requests propagate through queues without hanging.

Engine B (pybmc), same encoding as C04 plus: the producer's iterator fails at a SYMBOLIC position, an external
stopper thread calls maybe_stop() / maybe_stop(exc) at an arbitrary point of the interleaving, timeouts are
configured (a waiting thread then has an additional "timeout fires" transition). Decided per scenario by z3:
no deadlock, final-state predicate (consumer observes the producer's exception - never a clean end of stream;
no element twice; stop request leaves nobody blocked; with a timeout a starved get/put ends in TimeoutError).
"""
import os

from vf import common, srun
from vf.bmc_check import build, worker, absorb, replay  # noqa: F401


def scenarios(tier):
  S = []
  def add(name, **kw):
    kw['name'] = name
    S.append(kw)
  # producer failure at a symbolic position 0..n (255 = never)
  add('fail-1p2i-1c-get', nprod=1, items=2, ncons=1, consumer='get', cap=0, fail={0: (0, 255)}, pred='c05:fail', depths=(40, 50, 60, 70))
  add('fail-1p1i-1c-batch2-block1', nprod=1, items=1, ncons=1, consumer='batch', batch=2, block=1, cap=0, fail={0: (0, 255)}, pred='c05:fail', depths=(40, 50, 60, 70))
  add('fail-then-stop-then-read-again', nprod=1, items=1, ncons=1, consumer='get-stop-get', cap=0, fail={0: (0, 1)}, pred='c05:fail', depths=(40, 50, 60, 70))
  # stop requests against a blocked producer (full bounded buffer, nobody drains) and a blocked consumer (nobody feeds)
  add('stop-blocked-producer', nprod=1, items=2, ncons=0, cap=1, stopper='stop', pred='c05:stop', depths=(30, 40, 50, 60))
  add('stop-blocked-consumer', nprod=0, items=0, ncons=1, consumer='get', cap=0, stopper='stop', max_enqueuer=1, pred='c05:stop', depths=(20, 30, 40))
  add('stop-error-blocked-consumer', nprod=0, items=0, ncons=1, consumer='get', cap=0, stopper='error', max_enqueuer=1, pred='c05:stop-error', depths=(20, 30, 40))
  add('stop-blocked-batch-consumer', nprod=0, items=0, ncons=1, consumer='batch', batch=2, block=1, cap=0, stopper='stop', max_enqueuer=1, pred='c05:stop', depths=(20, 30, 40))
  # timeouts configured: starved get / put must end in TimeoutError
  add('timeout-starved-get', nprod=0, items=0, ncons=1, consumer='get', cap=0, max_enqueuer=1, timeout=1, pred='c05:timeout', depths=(10, 20, 30))
  add('timeout-starved-put', nprod=1, items=2, ncons=0, cap=1, timeout=1, pred='c05:timeout', depths=(30, 40, 50, 60, 70))
  if tier == 'thorough':
    add('stop-2-blocked-producers', nprod=2, items=(2, 1), ncons=0, cap=1, stopper='stop', pred='c05:stop', depths=(40, 50, 60, 70, 80))
    add('fail-1p2i-1c-batch2-block1', nprod=1, items=2, ncons=1, consumer='batch', batch=2, block=1, cap=0, fail={0: (0, 255)}, pred='c05:fail', depths=(60, 70, 80, 90))
    add('fail-1p2i-1c-get-cap1', nprod=1, items=2, ncons=1, consumer='get', cap=1, fail={0: (0, 255)}, pred='c05:fail', depths=(40, 50, 60, 70, 80))
    add('stop-1p2i-1c-get-cap1', nprod=1, items=2, ncons=1, consumer='get', cap=1, stopper='stop', pred='c05:stop', depths=(40, 50, 60, 70, 80, 90))
    add('stop-error-1p1i-1c-get', nprod=1, items=1, ncons=1, consumer='get', cap=1, stopper='error', pred='c05:stop-error', depths=(40, 50, 60, 70, 80))
    add('fail-2p1i-1c-get-cap1', nprod=2, items=1, ncons=1, consumer='get', cap=1, fail={0: (0, 255)}, pred='c05:fail', depths=(40, 50, 60, 70, 80, 90))
    add('timeout-1p1i-1c-get', nprod=1, items=1, ncons=1, consumer='get', cap=1, timeout=1, pred='c05:timeout', depths=(40, 50, 60, 70))
  return S


def run(tier):
  rep = common.Report('C05', tier, 'model_checking',
                      'Bounded model checking of the real IteratorQueue code (see C04) with symbolic fault positions: the producer iterator raises at a symbolic '
                      'position, a stopper thread issues maybe_stop()/maybe_stop(exc) anywhere in the interleaving, waits may time out when a timeout is configured. '
                      'z3 decides deadlock freedom and the final-state predicate per scenario; the unwinding query bounds the depth; traces are replayed on the real code.')
  sc = scenarios(tier)
  only = os.environ.get('VF_ONLY')
  jobs = [(s, tier) for s in sc if not only or only in s['name']]
  rep.bounds(scenarios=sc, note='FAIL = position at which next() of the producer raises (255: never); stopper = a third thread calling maybe_stop; TO = timeout configured')
  rep.outside('more threads / elements than listed', 'MultiplexIterator-level shutdown (C13)', 'asyncio variants')
  rep.assume('a failed generator is finished (later next() raises StopIteration)', 'Condition FIFO order; queue operations atomic', 'a configured timeout may fire at any time while a thread waits')
  from ml_metrics._src.utils import iter_utils as iu
  rep.encoded(iu.IteratorQueue.maybe_stop, iu.IteratorQueue._stop_enqueue, iu.IteratorQueue.put, iu.IteratorQueue.get, iu.IteratorQueue.get_batch, iu.IteratorQueue.get_nowait,
              iu.IteratorQueue.enqueue_from_iterator, iu.IteratorQueue._set_exhausted, iu._release_and_notify, iu.is_stop_iteration)
  results = srun.run_jobs(worker, jobs, nproc=min(len(jobs), common.NCPU))
  absorb(rep, results, 'C05')
  return rep.finish()
