"""C07 - metric values equal their mathematical definitions.

Engine S (symx). The real metric code runs on symbolic data; an independent textbook oracle is written directly
as z3 terms (or plain python over the same symbolic comparisons) from the raw examples; per path z3 proves
unsat(path-condition AND implementation != definition). Jobs:
  rates     all derived confusion-matrix rates over UNBOUNDED non-negative integer counts tp,tn,fp,fn:
            definition, documented aliases, mathematical range
  cm        confusion counts + rates from raw labels for binary / multiclass / indicator / multioutput inputs,
            micro / macro / binary / samples averaging, function API == accumulator API
  topk      top-k confusion matrices for contiguous and gapped k-lists
  retrieval per-row retrieval metrics (precision@k ... AP, MRR, DCG, NDCG) from the ranking definition
  stats     mean / var / count / total / min-max / histogram / Tjur R2 / Pearson r / SPD / calibration histogram
  signals   flip masks, top-k accuracy, cross entropies
"""
import math
import os
import random

import numpy as np
import z3

from vf import common, srun, symx

SV, SBool = symx.SV, symx.SBool


def _mods(*names):
  import importlib
  return tuple(importlib.import_module('ml_metrics._src.' + n) for n in names)


CLS_MODS = ('aggregates.classification', 'utils.math_utils', 'aggregates.utils', 'metrics.classification', 'metrics.utils')
RET_MODS = ('aggregates.retrieval', 'utils.math_utils', 'aggregates.utils', 'metrics.retrieval')
ROLL_MODS = ('aggregates.rolling_stats', 'utils.math_utils', 'aggregates.utils', 'metrics.rolling_stats', 'metrics.classification')
SIG_MODS = ('signals.flip_masks', 'signals.topk_accuracy', 'signals.cross_entropy')


# ---- oracle helpers (z3 level, independent of the library) -------------------------------------
def R(x):
  """z3 real term of a symbolic / concrete scalar (must not be NaN)."""
  if isinstance(x, SBool):
    return z3.If(x.t, z3.RealVal(1), z3.RealVal(0))
  if isinstance(x, SV):
    return z3.ToReal(x.val) if x.val.sort() == z3.IntSort() else x.val
  return symx._num(x)


def div0(a, b):
  """a / b with the documented zero-denominator convention (0)."""
  return z3.If(b == 0, z3.RealVal(0), a / b)


def osum(ts):
  r = z3.RealVal(0)
  for t in ts:
    r = r + t
  return r


def sv(t):
  return SV(t)


def RATE_DEFS(tp, tn, fp, fn):
  """Textbook definitions over the four counts (z3 reals)."""
  n = tp + tn + fp + fn
  prec, rec = div0(tp, tp + fp), div0(tp, tp + fn)
  spec, fpr, fnr = div0(tn, tn + fp), div0(fp, fp + tn), div0(fn, fn + tp)
  npv = div0(tn, tn + fn)
  plr, nlr = div0(rec, fpr), div0(fnr, spec)
  d = {
      'precision': prec, 'ppv': prec, 'positive_predictive_value': prec,
      'recall': rec, 'sensitivity': rec, 'tpr': rec,
      'f1_score': div0(2 * tp, 2 * tp + fp + fn),
      'binary_accuracy': div0(tp + tn, n),
      'specificity': spec, 'tnr': spec,
      'fall_out': fpr, 'fpr': fpr,
      'miss_rate': fnr, 'fnr': fnr,
      'negative_prediction_value': npv, 'nvp': npv,
      'false_discovery_rate': div0(fp, fp + tp),
      'false_omission_rate': div0(fn, fn + tn),
      'threat_score': div0(tp, tp + fn + fp), 'intersection_over_union': div0(tp, tp + fn + fp),
      'positive_likelihood_ratio': plr, 'negative_likelihood_ratio': nlr,
      'diagnostic_odds_ratio': div0(plr, nlr),
      'prevalence': div0(tp + fn, n),
      'informedness': rec + spec - 1, 'markedness': prec + npv - 1,
      'balanced_accuracy': (rec + spec) / 2,
  }
  return d

UNIT = ('precision', 'ppv', 'positive_predictive_value', 'recall', 'sensitivity', 'tpr', 'f1_score', 'binary_accuracy', 'specificity', 'tnr',
        'fall_out', 'fpr', 'miss_rate', 'fnr', 'negative_prediction_value', 'nvp', 'false_discovery_rate', 'false_omission_rate', 'threat_score',
        'intersection_over_union', 'prevalence', 'balanced_accuracy')
SIGNED = ('informedness', 'markedness')
ALIASES = [('ppv', 'precision'), ('positive_predictive_value', 'precision'), ('tpr', 'recall'), ('sensitivity', 'recall'), ('tnr', 'specificity'),
           ('fpr', 'fall_out'), ('fnr', 'miss_rate'), ('nvp', 'negative_prediction_value'), ('intersection_over_union', 'threat_score')]


class Eq:
  """Equality claim implementation == definition, kept structured so that a concrete replay can compare numerically."""

  def __init__(self, impl, oracle_term):
    self.impl, self.oracle = impl, oracle_term

  def z3(self):
    impl = self.impl
    if isinstance(impl, np.ndarray) and impl.ndim == 0:
      impl = impl.item()
    if isinstance(impl, (SV, SBool)):
      return symx.eq_claim(impl, SV(self.oracle))
    f = float(impl)                      # concrete float produced by real float arithmetic: equality up to rounding
    if f != f:
      return z3.BoolVal(False)
    t = symx._num(f)
    eps = z3.RealVal('1e-9')
    return z3.And(self.oracle - t <= eps, t - self.oracle <= eps)


def eqv(impl, oracle_term):
  return Eq(impl, oracle_term)


def isnan_const(x):
  if isinstance(x, SV):
    return z3.is_true(x.nan)
  return isinstance(x, float) and x != x


def at(x, j):
  return x[j] if isinstance(x, (np.ndarray, list, tuple)) else x


def to_z3(claim):
  return claim.z3() if isinstance(claim, Eq) else symx._b(claim)


# ---- job: rates over unbounded counts -----------------------------------------------------------
def job_rates(metric):
  from ml_metrics._src.aggregates import classification as cls
  mods = _mods(*CLS_MODS)

  def scn(c):
    tp, tn, fp, fn = (c.real(v, lo=0) for v in ('tp', 'tn', 'fp', 'fn'))   # non-negative REALS: a superset of all integer counts, and pure NRA
    c.prefer_int = [x.val for x in (tp, tn, fp, fn)]
    with symx.patched(*mods):
      cm = cls._ConfusionMatrix(tp, tn, fp, fn)
      got = cm.derive_metric(cls.ConfusionMatrixMetric(metric))
    T = [R(x) for x in (tp, tn, fp, fn)]
    claims = []
    defs = RATE_DEFS(*T)
    if metric in defs:
      claims.append((f'{metric}==definition', eqv(got, defs[metric])))
    g = SV.lift(got)
    if metric in UNIT:
      claims.append((f'{metric} in [0,1]', z3.And(g.val >= 0, g.val <= 1, z3.Not(g.nan))))
    if metric in SIGNED or metric == 'matthews_correlation_coefficient':
      claims.append((f'{metric} in [-1,1]', z3.And(g.val >= -1, g.val <= 1, z3.Not(g.nan))))
    if metric == 'matthews_correlation_coefficient':
      tpv, tnv, fpv, fnv = T
      den2 = (tpv + fpv) * (tpv + fnv) * (tnv + fpv) * (tnv + fnv)
      num = tpv * tnv - fpv * fnv
      # definition: num / sqrt(den2), 0 when den2 == 0  <=>  got*got*den2 == num*num, sign(got) == sign(num)
      claims.append(('mcc==definition', z3.And(z3.Implies(den2 == 0, g.val == 0),
                                                z3.Implies(den2 > 0, z3.And(g.val * g.val * den2 == num * num, (g.val >= 0) == (num >= 0))))))
    if metric == 'prevalence_threshold':
      tpv, tnv, fpv, fnv = T
      tpr, fpr = div0(tpv, tpv + fnv), div0(fpv, fpv + tnv)
      # PT = (sqrt(tpr*fpr) - fpr) / (tpr - fpr); 0 when tpr == fpr ; characterised without sqrt:
      s_ = g.val * (tpr - fpr) + fpr          # must be sqrt(tpr*fpr)
      claims.append(('prevalence_threshold==definition', z3.And(z3.Implies(tpr == fpr, g.val == 0),
                                                                 z3.Implies(tpr != fpr, z3.And(s_ >= 0, s_ * s_ == tpr * fpr)))))
    if metric == 'accuracy':
      claims.append(('accuracy==[tp>0]', eqv(got, z3.If(T[0] > 0, z3.RealVal(1), z3.RealVal(0)))))
    for a, b in ALIASES:
      if metric == a:
        with symx.patched(*mods):
          other = cm.derive_metric(cls.ConfusionMatrixMetric(b))
        claims.append((f'alias {a}=={b}', symx.eq_claim(got, other)))
    return claims
  return scn, None, mods


# ---- job: confusion matrix metrics from raw labels ---------------------------------------------------
CM_METRICS = ('precision', 'recall', 'f1_score', 'binary_accuracy', 'specificity', 'miss_rate', 'threat_score', 'prevalence', 'false_discovery_rate')


def class_counts(true_sets, pred_sets, classes):
  """per class (tp, tn, fp, fn) as z3 reals; *_sets[i][c] is a z3 Bool: example i has class c."""
  out = []
  for c in classes:
    tp = osum([z3.If(z3.And(t[c], p[c]), 1.0, 0.0) for t, p in zip(true_sets, pred_sets)])
    fp = osum([z3.If(z3.And(z3.Not(t[c]), p[c]), 1.0, 0.0) for t, p in zip(true_sets, pred_sets)])
    fn = osum([z3.If(z3.And(t[c], z3.Not(p[c])), 1.0, 0.0) for t, p in zip(true_sets, pred_sets)])
    tn = osum([z3.If(z3.And(z3.Not(t[c]), z3.Not(p[c])), 1.0, 0.0) for t, p in zip(true_sets, pred_sets)])
    out.append((tp, tn, fp, fn))
  return out


def averaged(metric, counts, average):
  if average in ('micro', 'binary'):
    tot = [osum([c[j] for c in counts]) for j in range(4)]
    return RATE_DEFS(*tot)[metric]
  if average == 'macro':
    return osum([RATE_DEFS(*c)[metric] for c in counts]) / len(counts)
  raise ValueError(average)


def job_cm(kind, n, average):
  from ml_metrics._src.aggregates import classification as cls
  from ml_metrics._src.metrics import classification as mcls
  mods = _mods(*CLS_MODS)
  K = 3

  def scn(c):
    kw = {}
    if kind == 'binary':
      yt = [c.int(f't{i}', 0, 1) for i in range(n)]
      yp = [c.int(f'p{i}', 0, 1) for i in range(n)]
      ts = [{1: (R(t) == 1)} for t in yt]
      ps = [{1: (R(p) == 1)} for p in yp]
      classes = [1]
      c.assume(z3.Or(*[R(v) == 1 for v in yt + yp]))      # documented precondition of the function API: pos_label occurs in the data
      kw = dict(input_type='binary', average='binary', pos_label=1)
    elif kind == 'multiclass':
      yt = [c.int(f't{i}', 0, K - 1) for i in range(n)]
      yp = [c.int(f'p{i}', 0, K - 1) for i in range(n)]
      classes = list(range(K))
      ts = [{k: (R(t) == k) for k in classes} for t in yt]
      ps = [{k: (R(p) == k) for k in classes} for p in yp]
      kw = dict(input_type='multiclass', average=average, vocab={k: k for k in classes})
    elif kind == 'indicator':
      classes = list(range(2))
      yt = [[c.int(f't{i}_{k}', 0, 1) for k in classes] for i in range(n)]
      yp = [[c.int(f'p{i}_{k}', 0, 1) for k in classes] for i in range(n)]
      ts = [{k: (R(row[k]) == 1) for k in classes} for row in yt]
      ps = [{k: (R(row[k]) == 1) for k in classes} for row in yp]
      kw = dict(input_type='multiclass-indicator', average=average)
    elif kind == 'multioutput':
      classes = list(range(2))
      yt = [[c.int(f't{i}', 0, 1)] for i in range(n)]
      yp = [[c.int(f'p{i}a', 0, 1), c.int(f'p{i}b', 0, 1)] for i in range(n)]
      ts = [{k: z3.Or(*[R(e) == k for e in row]) for k in classes} for row in yt]
      ps = [{k: z3.Or(*[R(e) == k for e in row]) for k in classes} for row in yp]
      kw = dict(input_type='multiclass-multioutput', average=average, vocab={k: k for k in classes})
    claims = []
    with symx.patched(*mods):
      if average == 'samples':
        m = cls.SamplewiseClassification(metrics=CM_METRICS, input_type=kw['input_type'], vocab=kw.get('vocab'))
        m.add(yt, yp)
        got = m.result()
        got_fn = None
      else:
        fn = mcls.ClassificationAggFn(CM_METRICS, **kw)
        got = fn(yt, yp)
        got_fn = {mm: getattr(mcls, mm)(yt, yp, **{k: v for k, v in kw.items()}) for mm in ('precision', 'recall', 'f1_score')}
    if average == 'samples':
      # per example: counts over the class axis, then the mean over examples
      for mm in CM_METRICS:
        per = []
        for t, p in zip(ts, ps):
          cnt = class_counts([t], [p], classes)
          tot = [osum([cc[j] for cc in cnt]) for j in range(4)]
          per.append(RATE_DEFS(*tot)[mm])
        claims.append((f'{kind}/samples {mm}==definition', eqv(got[mm], osum(per) / n)))
    else:
      counts = class_counts(ts, ps, classes)
      for mm in CM_METRICS:
        claims.append((f'{kind}/{average} {mm}==definition', eqv(got[mm], averaged(mm, counts, average))))
      for mm, v in got_fn.items():
        claims.append((f'{kind}/{average} function-api {mm}==accumulator-api', symx.eq_claim(v, got[mm])))
    return claims
  return scn, None, mods


# ---- job: top-k confusion matrix (contiguous and gapped k lists) ----------------------------------------
def job_topk(k_list, n, average):
  from ml_metrics._src.metrics import classification as mcls
  mods = _mods(*CLS_MODS)
  classes = [0, 1, 2]
  L = 3

  def scn(c):
    yt = [[c.int(f't{i}', 0, 2)] for i in range(n)]
    yp = [[c.int(f'p{i}_{j}', 0, 2) for j in range(L)] for i in range(n)]
    with symx.patched(*mods):
      fn = mcls.ClassificationAggFn(('precision', 'recall'), input_type='multiclass-multioutput', average=average,
                                    vocab={k: k for k in classes}, k_list=list(k_list))
      got = fn(yt, yp)
    claims = []
    for j, k in enumerate(sorted(k_list)):
      ts = [{cl: z3.Or(*[R(e) == cl for e in row]) for cl in classes} for row in yt]
      ps = [{cl: z3.Or(*[R(e) == cl for e in row[:k]]) for cl in classes} for row in yp]
      counts = class_counts(ts, ps, classes)
      for mm in ('precision', 'recall'):
        claims.append((f'top{k} of k_list={list(k_list)} {average} {mm}==definition', eqv(got[mm][j], averaged(mm, counts, average))))
    return claims
  return scn, None, mods


# ---- job: retrieval metrics per row, from the ranking definition (plain python over symbolic comparisons) ------
RET_METRICS = ('precision', 'ppv', 'recall', 'sensitivity', 'tpr', 'positive_predictive_value', 'intersection_over_union', 'f1_score', 'accuracy',
               'mean_average_precision', 'mean_reciprocal_rank', 'miss_rate', 'false_discovery_rate', 'threat_score', 'fowlkes_mallows_index',
               'dcg_score', 'ndcg_score')


def ret_oracle(true_row, pred_row, k):
  hits = [int(any(bool(SV.lift(p) == t) if isinstance(p, SV) or isinstance(t, SV) else p == t for t in true_row)) for p in pred_row]
  npred, ntrue = len(pred_row), len(true_row)
  tp = sum(hits[:k])
  prec = tp / min(k, npred)
  rec = tp / ntrue
  ap = sum((sum(hits[:i + 1]) / (i + 1)) * hits[i] for i in range(min(k, npred))) / min(k, ntrue)
  first = next((i + 1 for i, h in enumerate(hits) if h), None)
  mrr = 1.0 / first if first is not None and first <= k else 0.0
  dcg = sum(h / math.log2(i + 2) for i, h in enumerate(hits[:k]))
  idcg = sum(1.0 / math.log2(i + 2) for i in range(min(k, ntrue)))
  return {
      'precision': prec, 'ppv': prec, 'positive_predictive_value': prec, 'recall': rec, 'sensitivity': rec, 'tpr': rec,
      'intersection_over_union': tp / (min(k, npred) + ntrue - tp),
      'f1_score': (2 * prec * rec / (prec + rec)) if prec + rec else 0.0,
      'accuracy': int(tp > 0), 'mean_average_precision': ap, 'mean_reciprocal_rank': mrr,
      'miss_rate': 1 - rec, 'false_discovery_rate': 1 - prec,
      'threat_score': tp / (ntrue - tp + k), 'fowlkes_mallows_index': math.sqrt(prec * rec),
      'dcg_score': dcg, 'ndcg_score': dcg / idcg,
  }


def job_retrieval(k_list, n, npred):
  from ml_metrics._src.aggregates import retrieval as ret
  from ml_metrics._src.metrics import retrieval as mret
  mods = _mods(*RET_MODS)

  def scn(c):
    yt = [[c.int(f't{i}_0', 0, 3), c.int(f't{i}_1', 0, 3)] for i in range(n)]
    for i in range(n):
      c.assume(yt[i][0].val != yt[i][1].val)          # the truth is a set
    yp = [[c.int(f'p{i}_{j}', 0, 3) for j in range(npred)] for i in range(n)]
    for i in range(n):
      for a in range(npred):
        for b in range(a):
          c.assume(yp[i][a].val != yp[i][b].val)       # a ranking has no repeated ids
    with symx.patched(*mods):
      m = ret.TopKRetrieval(k_list=list(k_list), metrics=RET_METRICS)
      per_row = m.add(yt, yp)
      agg = m.result()
      fapi = mret.topk_retrieval_metrics(('precision', 'mean_average_precision'), y_true=yt, y_pred=yp, k_list=list(k_list))
    claims = []
    ks = sorted(k_list)
    for j, k in enumerate(ks):
      kk = min(k, npred) if False else k
      rows = [ret_oracle(yt[i], yp[i], kk) for i in range(n)]
      for mm in RET_METRICS:
        want = sum(r[mm] for r in rows) / n
        claims.append((f'{mm}@{k}==definition (mean over rows)', symx.eq_claim(agg[mm][j], want)))
    claims.append(('function-api precision==accumulator-api', symx.eq_claim(list(fapi['precision']), list(agg['precision']))))
    claims.append(('function-api mean_average_precision==accumulator-api', symx.eq_claim(list(fapi['mean_average_precision']), list(agg['mean_average_precision']))))
    return claims
  return scn, None, mods


# ---- job: rolling statistics ----------------------------------------------------------------------
def job_stats(which, n):
  from ml_metrics._src.aggregates import rolling_stats as rs
  from ml_metrics._src.metrics import rolling_stats as mrs
  from ml_metrics._src.metrics import classification as mcls
  mods = _mods(*ROLL_MODS)

  def scn(c):
    claims = []
    if which == 'moments':
      xs = [c.real(f'x{i}', nan=True) for i in range(n)]
      valid = [x for x in xs if not isnan_const(x)]
      cnt = len(valid)
      with symx.patched(*mods):
        m = rs.MeanAndVariance(); m.add(list(xs))
        f_mean, f_var, f_cnt, f_tot = mrs.mean(list(xs)), mrs.var(list(xs)), mrs.count(list(xs)), mrs.total(list(xs))
        sd_ = m.stddev if cnt else None
      if cnt:
        mu = osum([R(x) for x in valid]) / cnt
        var = osum([(R(x) - mu) * (R(x) - mu) for x in valid]) / cnt
        claims += [('mean==sum/n over non-NaN', eqv(m.mean, mu)), ('var==mean squared deviation over non-NaN', eqv(m.var, var)),
                   ('total==sum over non-NaN', eqv(m.total, osum([R(x) for x in valid])))]
        claims += [('function-api mean', symx.eq_claim(f_mean, m.mean)), ('function-api var', symx.eq_claim(f_var, m.var)),
                   ('function-api total', symx.eq_claim(f_tot, m.total))]
        sd = SV.lift(sd_)
        claims.append(('stddev**2==var, stddev>=0', z3.And(sd.val >= 0, sd.val * sd.val == SV.lift(m.var).val)))
      else:
        claims += [('all-NaN: mean is NaN', SV.lift(m.mean).nan), ('all-NaN: var is NaN', SV.lift(m.var).nan)]
      claims += [('count==#non-NaN', symx.eq_claim(m.count, cnt)), ('function-api count', symx.eq_claim(f_cnt, cnt))]
    elif which in ('moments2d', 'moments2d_2batches'):
      rows = [[c.real(f'x{i}_{j}', nan=True) for j in range(2)] for i in range(n)]
      with symx.patched(*mods):
        m = rs.MeanAndVariance()
        if which == 'moments2d':
          m.add([list(r) for r in rows])
        else:                       # the accumulator API over two batches must give the definition over all rows
          m.add([list(r) for r in rows[:n - 1]]); m.add([list(r) for r in rows[n - 1:]])
      for j in range(2):
        valid = [r[j] for r in rows if not isnan_const(r[j])]
        claims.append((f'col{j} count', symx.eq_claim(at(m.count, j), len(valid))))
        if valid:
          mu = osum([R(x) for x in valid]) / len(valid)
          claims.append((f'col{j} mean', eqv(at(m.mean, j), mu)))
          claims.append((f'col{j} var', eqv(at(m.var, j), osum([(R(x) - mu) * (R(x) - mu) for x in valid]) / len(valid))))
        else:
          claims.append((f'col{j} all-NaN mean is NaN', SV.lift(at(m.mean, j)).nan))
    elif which == 'minmax':
      xs = [c.real(f'x{i}', lo=0) for i in range(n)]
      with symx.patched(*mods):
        m = rs.MinMaxAndCount(); m.add(list(xs[:n - 1])); m.add(list(xs[n - 1:]))
      mn, mx = SV.lift(m.min), SV.lift(m.max)
      claims.append(('min is a lower bound and attained', z3.And(*[mn.val <= R(x) for x in xs], z3.Or(*[mn.val == R(x) for x in xs]))))
      claims.append(('max is an upper bound and attained', z3.And(*[mx.val >= R(x) for x in xs], z3.Or(*[mx.val == R(x) for x in xs]))))
      claims.append(('count==n', symx.eq_claim(m.count, n)))
    elif which == 'histogram':
      xs = [c.real(f'x{i}') for i in range(n)]
      ws = [c.real(f'w{i}') for i in range(n)]
      with symx.patched(*mods):
        h = rs.Histogram(range=(0, 2), bins=4); h.add(list(xs), list(ws))
        res = h.result()
      edges = [0.0, 0.5, 1.0, 1.5, 2.0]
      claims.append(('bin edges', z3.BoolVal(list(res.bin_edges) == edges)))
      for j in range(4):
        lo, hi = edges[j], edges[j + 1]
        inside = [z3.And(R(x) >= lo, (R(x) <= hi) if j == 3 else (R(x) < hi)) for x in xs]
        claims.append((f'bin {j} == sum of weights of x in [{lo},{hi}{"]" if j == 3 else ")"}', eqv(res.hist[j], osum([z3.If(i_, R(w), 0.0) for i_, w in zip(inside, ws)]))))
    elif which == 'calibration':
      ls = [c.int(f'l{i}', 0, 1) for i in range(n)]
      ps = [c.real(f'p{i}', lo=0, hi=1) for i in range(n)]
      with symx.patched(*mods):
        h = mcls.CalibrationHistogram(range=(0, 1), bins=2); h.add(list(ls), list(ps))
        res = h.result()
      edges = [0.0, 0.5, 1.0]
      for j in range(2):
        lo, hi = edges[j], edges[j + 1]
        inb = lambda v: z3.And(v >= lo, (v <= hi) if j == 1 else (v < hi))
        claims.append((f'calibration bin {j} #examples (labels and predictions)', eqv(res.num_examples_hist[j], osum([z3.If(inb(R(v)), 1.0, 0.0) for v in ls + ps]))))
        claims.append((f'calibration bin {j} sum of labels', eqv(res.labels_hist[j], osum([z3.If(inb(R(v)), R(v), 0.0) for v in ls]))))
        claims.append((f'calibration bin {j} sum of predictions', eqv(res.predictions_hist[j], osum([z3.If(inb(R(v)), R(v), 0.0) for v in ps]))))
    elif which == 'tjur':
      ys = [c.int(f'y{i}', 0, 1) for i in range(n)]
      ps = [c.real(f'p{i}', lo=0, hi=1) for i in range(n)]
      with symx.patched(*mods):
        m = rs.R2Tjur(); m.add(list(ys), list(ps)); got = m.result()
        m2 = rs.R2TjurRelative(); m2.add(list(ys), list(ps)); got2 = m2.result()
      n1 = osum([R(y) for y in ys]); n0 = n - n1
      s1 = osum([R(y) * R(p) for y, p in zip(ys, ps)]); s0 = osum([(1 - R(y)) * R(p) for y, p in zip(ys, ps)])
      g = SV.lift(got); g2 = SV.lift(got2)
      claims.append(('tjur == mean(p|y=1) - mean(p|y=0), NaN if a class is absent',
                     z3.If(z3.Or(n1 == 0, n0 == 0), g.nan, z3.And(z3.Not(g.nan), g.val == s1 / n1 - s0 / n0))))
      claims.append(('tjur-relative == mean(p|y=1) / mean(p|y=0), NaN if undefined',
                     z3.If(z3.Or(n1 == 0, s0 == 0), g2.nan, z3.And(z3.Not(g2.nan), g2.val * (s0 / n0) == s1 / n1))))
    elif which == 'pearson':
      xs = [c.real(f'x{i}') for i in range(n)]
      ys = [c.real(f'y{i}') for i in range(n)]
      with symx.patched(*mods):
        m = rs.RRegression(); m.add(list(xs), list(ys)); got = SV.lift(m.result())
      mx, my = osum([R(x) for x in xs]) / n, osum([R(y) for y in ys]) / n
      cov = osum([(R(x) - mx) * (R(y) - my) for x, y in zip(xs, ys)])
      vx, vy = osum([(R(x) - mx) ** 2 for x in xs]), osum([(R(y) - my) ** 2 for y in ys])
      # r = cov / sqrt(vx*vy): characterised without sqrt
      claims.append(('pearson r: r^2 * vx*vy == cov^2, sign(r)==sign(cov), |r|<=1',
                     z3.Implies(z3.And(vx > 0, vy > 0, z3.Not(got.nan)),
                                z3.And(got.val * got.val * vx * vy == cov * cov, (got.val >= 0) == (cov >= 0), got.val <= 1, got.val >= -1))))
    elif which == 'spd':
      xs = [c.real(f'x{i}', lo=1, hi=5) for i in range(n)]
      ys = [c.real(f'y{i}', lo=1, hi=5) for i in range(n)]
      with symx.patched(*mods):
        m = rs.SymmetricPredictionDifference(); m.add(list(xs), list(ys)); got = m.result()
      ab = lambda t: z3.If(t >= 0, t, -t)
      claims.append(('spd == (2/n) sum |x-y|/|x+y|', eqv(got, 2 * osum([ab(R(x) - R(y)) / ab(R(x) + R(y)) for x, y in zip(xs, ys)]) / n)))
    return claims
  return scn, None, mods


# ---- job: signals -----------------------------------------------------------------------------------
def job_signals(which, n):
  from ml_metrics._src.signals import flip_masks as fm, topk_accuracy as ta, cross_entropy as ce
  mods = _mods(*SIG_MODS)

  def scn(c):
    claims = []
    if which == 'flip':
      b = [c.real(f'b{i}') for i in range(n)]
      m = [c.real(f'm{i}') for i in range(n)]
      thr = c.real('thr')
      with symx.patched(*mods):
        ba, ma = symx._obj(b), symx._obj(m)
        f1, f2, f3 = fm.binary_flip_mask(ba, ma, thr), fm.neg_to_pos_flip_mask(ba, ma, thr), fm.pos_to_neg_flip_mask(ba, ma, thr)
      for i in range(n):
        bo, mo = R(b[i]) > R(thr), R(m[i]) > R(thr)
        claims.append((f'binary flip[{i}]', eqv(f1[i], z3.If(bo != mo, 1.0, 0.0))))
        claims.append((f'neg->pos flip[{i}]', eqv(f2[i], z3.If(z3.And(z3.Not(bo), mo), 1.0, 0.0))))
        claims.append((f'pos->neg flip[{i}]', eqv(f3[i], z3.If(z3.And(bo, z3.Not(mo)), 1.0, 0.0))))
    elif which == 'topk_accurate':
      p = [c.real(f'p{i}') for i in range(n)]
      label = c.int('label', 0, n - 1)
      for a in range(n):
        for b_ in range(a):
          c.assume(p[a].val != p[b_].val)      # ties: numpy's order among equal scores is an implementation detail
      for k in range(1, n + 1):
        with symx.patched(*mods):
          got = ta.topk_accurate(list(p), label, k=k)
        lab = int(label)
        higher = osum([z3.If(R(q) > R(p[lab]), 1.0, 0.0) for q in p])
        claims.append((f'top-{k} accurate == fewer than k scores above the label score', symx.eq_claim(bool(got), SBool(higher < k))))
    elif which == 'cross_entropy':
      ys = [c.int(f'y{i}', 0, 1) for i in range(n)]
      ps = [c.real(f'p{i}', lo=0.01, hi=0.99) for i in range(n)]
      with symx.patched(*mods):
        got = ce.binary_cross_entropy(symx._obj(ys), symx._obj(ps))
        got2 = ce.categorical_cross_entropy(symx._obj(ys), symx._obj(ps))
      L = lambda t: symx.log(SV(t)).val
      claims.append(('binary cross entropy == -mean(y log p + (1-y) log(1-p))',
                     eqv(got, -osum([R(y) * L(R(p)) + (1 - R(y)) * L(1 - R(p)) for y, p in zip(ys, ps)]) / n)))
      tot = osum([R(p) for p in ps])
      claims.append(('categorical cross entropy == -sum y log(p / sum p)', eqv(got2, -osum([R(y) * L(R(p) / tot) for y, p in zip(ys, ps)]))))
    return claims
  return scn, None, mods


# ---- job: literal pattern frequency (texts are built from word choices that the solver enumerates; per path the library runs on
#      concrete strings - the words deliberately contain regex metacharacters) ---------------------------------------------------
TEXT_VOCAB = ('a', '.', 'b|a', 'a?')
TEXT_PATTERNS = ('.', 'a', 'b|a', 'a?', '|a')


def job_text(n, dup):
  from ml_metrics._src.aggregates import text as agg_text
  mods = _mods('aggregates.text', 'aggregates.utils', 'utils.math_utils')

  def scn(c):
    texts = [' '.join(TEXT_VOCAB[int(c.int(f'w{i}_{j}', 0, len(TEXT_VOCAB) - 1))] for j in range(2)) for i in range(n)]
    with symx.patched(*mods):
      m = agg_text.PatternFrequency(patterns=TEXT_PATTERNS, count_duplicate=dup)
      half = max(1, n // 2)
      m.add(texts[:half])
      if texts[half:]:
        m.add(texts[half:])
      got = dict(m.result())
    claims = []
    for p in TEXT_PATTERNS:
      per_text = [sum(1 for k in range(len(t)) if t.startswith(p, k)) for t in texts]        # overlapping literal occurrences
      total = sum(per_text) if dup else sum(1 for x in per_text if x)
      claims.append((f'frequency of the literal pattern {p!r} (count_duplicate={dup})', eqv(got.get(p, 0.0), z3.RealVal(total) / n)))
    return claims
  return scn, None, mods


JOBS = {'text': job_text, 'rates': job_rates, 'cm': job_cm, 'topk': job_topk, 'retrieval': job_retrieval, 'stats': job_stats, 'signals': job_signals}


def worker(job):
  kind, args, tier, seed = job
  scn0, _, mods = JOBS[kind](*args)
  scn = lambda c: [(n_, to_z3(cl)) for n_, cl in scn0(c)]
  res = symx.explore(scn, max_paths=6000 if tier == 'quick' else 60000, timeout_s=240 if tier == 'quick' else 3000)
  failed = []
  for claim, values, prefix in res.failed[:3]:
    failed.append(_replay_claim(scn0, claim, values))
  return {'job': [kind, list(args)], 'paths': res.paths, 'cut': res.cut, 'cut_reasons': res.cut_reasons, 'claims': res.claims,
          'discharged': res.discharged, 'failed': failed, 'unknown': res.unknown, 'stats': res.stats, 'witness': res.paths > 0,
          'samples': [{'job': kind, 'args': list(args), 'paths': res.paths, 'claims_proved_unsat': res.discharged}]}


def _closed_float(t):
  v = z3.simplify(t)
  if z3.is_int_value(v):
    return float(v.as_long())
  if z3.is_rational_value(v):
    return float(v.as_fraction())
  if z3.is_algebraic_value(v):
    return float(v.approx(12).as_fraction())
  return None


def _replay_claim(scn0, claim, values):
  """1) real numpy on the model values, numeric comparison with the evaluated definition (equality claims);
  2) otherwise the exact path: the same library code on constant proxies, the claim decided on closed terms."""
  out = {'claim': claim, 'values': values, 'reproduced': False, 'detail': ''}
  try:
    cc = srun.ConstCtx(dict(values), symbolic_consts=False)
    old, symx.Ctx.cur = symx.Ctx.cur, cc
    try:
      cl = dict(scn0(cc))
    finally:
      symx.Ctx.cur = old
    c0 = cl.get(claim)
    if isinstance(c0, Eq) and not isinstance(c0.impl, (SV, SBool)):
      want = _closed_float(c0.oracle)
      got = float(np.asarray(c0.impl))
      if want is not None:
        bad = not (abs(got - want) <= 1e-6 * max(1.0, abs(want))) and not (got != got and want != want)
        out.update(reproduced=bool(bad), detail=f'real numpy: library={got!r} definition={want!r}')
        return out
  except Exception as e:  # pylint: disable=broad-exception-caught
    out['detail'] = f'concrete run raised {type(e).__name__}: {e}; '
  try:
    cc = srun.ConstCtx(dict(values), symbolic_consts=True)
    old, symx.Ctx.cur = symx.Ctx.cur, cc
    try:
      cc.begin_path([])
      cl = dict(scn0(cc))
      t = z3.simplify(to_z3(cl[claim]))
      holds = z3.is_true(t) or (not z3.is_false(t) and cc.check(z3.Not(t)) == z3.unsat)
      refuted = z3.is_false(t) or (not z3.is_true(t) and cc.check(t) == z3.unsat)
    finally:
      symx.Ctx.cur = old
    out.update(reproduced=bool(refuted and not holds), detail=out['detail'] + f'exact evaluation on the model values: claim is {"false" if refuted else "not refuted"}: {str(t)[:200]}')
  except Exception as e:  # pylint: disable=broad-exception-caught
    out['detail'] += f'exact replay raised {type(e).__name__}: {e}'
  return out


def replay(data):
  """./run.py C07 --replay FILE : re-evaluates the recorded claim on the recorded values with the current /repo code."""
  import ast
  kind, args = ast.literal_eval(data['job']) if isinstance(data['job'], str) else data['job']
  args = tuple(tuple(a) if isinstance(a, list) else a for a in args)
  scn0, _, _mods = JOBS[kind](*args)
  out = _replay_claim(scn0, data['claim'], ast.literal_eval(data['values']) if isinstance(data['values'], str) else data['values'])
  print(out['detail'])
  print('REPRODUCED' if out['reproduced'] else 'NOT-REPRODUCED')
  return 1 if out['reproduced'] else 0


def classify(r, f):
  return f"{r['job'][0]}:{f['claim']}"


def run(tier):
  rep = common.Report('C07', tier, 'other',
                      'Bounded symbolic execution (symx) of the real metric code against independently written textbook definitions (z3 terms over the raw '
                      'examples / counts). Per path z3 proves unsat(path AND implementation != definition); derived rates are proven over UNBOUNDED non-negative '
                      'integer counts (definition, aliases, range). Counterexamples are re-evaluated on the model values before being reported.')
  from ml_metrics._src.aggregates import classification as cls
  q = tier == 'quick'
  jobs = []
  for m in cls.ConfusionMatrixMetric:
    if m.value not in ('confusion_matrix', 'mean_average_precision'):
      jobs.append(('rates', (m.value,)))
  n = 3 if q else 4
  for kind, avgs in (('binary', ['binary']), ('multiclass', ['micro', 'macro']), ('indicator', ['micro', 'macro', 'samples']),
                     ('multioutput', ['micro', 'macro', 'samples'])):
    for a in avgs:
      jobs.append(('cm', (kind, n if kind in ('binary', 'multiclass') else 2 if q else 3, a)))
  for kl in ([1, 2], [1, 3], [2], [3], [1, 2, 3]):
    # macro over top-k matrices is in the quick tier too: the macro mean was taken over the k axis (fixed: 6cc113b)
    for a in ('micro', 'macro'):
      jobs.append(('topk', (tuple(kl), 1 if q else 2, a)))
  for dup in (True, False):
    jobs.append(('text', (2 if q else 3, dup)))
  for kl, npred in (((1, 2, 3), 3), ((2,), 3), ((1, 2), 2)):
    jobs.append(('retrieval', (kl, 1 if q else 2, npred)))
  for w in ('moments', 'moments2d', 'moments2d_2batches', 'minmax', 'histogram', 'calibration', 'tjur', 'pearson', 'spd'):
    jobs.append(('stats', (w, (2 if w == 'pearson' else 3) if q else (3 if w == 'pearson' else 4))))
  for w in ('flip', 'topk_accurate', 'cross_entropy'):
    jobs.append(('signals', (w, 3)))
  only = os.environ.get('VF_ONLY')
  jobs = [(k, a, tier, common.seed()) for k, a in jobs if not only or only in k or only in str(a)]
  rep.bounds(rows=n, classes=3, k_lists=[[1, 2], [1, 3], [2], [3], [1, 2, 3]], counts='unbounded non-negative integers for the rate obligations',
             note='labels from {0,1,2}; scores/measurements arbitrary reals with explicit NaN case split; rankings without repeated ids')
  rep.outside('floating-point rounding', '+-inf (cut paths counted)', 'cg_score, image and text signals, Keras wrapper', 'text frequency metrics (structure covered by C01/C11)',
              'text metrics other than PatternFrequency over a 4-word vocabulary with regex metacharacters', 'ThresholdedRetrieval interpolation', 'ties in top-k accuracy (numpy argsort order among equal scores)')
  rep.assume('sqrt/log/log2 are uninterpreted functions with square / sign axioms (rates that need sqrt are characterised without it)',
             'numpy facade validated against real numpy (see C01/C11 translator_validation)')
  from ml_metrics._src.aggregates import retrieval as ret, rolling_stats as rs
  from ml_metrics._src.metrics import classification as mcls
  rep.encoded(cls._ConfusionMatrix.derive_metric, cls._indicator_confusion_matrix, cls._multiclass_confusion_matrix, cls._apply_vocab, cls._apply_vocab_at_k,
              cls._topk_confusion_matrix, cls.SamplewiseClassification.add, mcls.ClassificationAggFn.__init__, mcls.classification_metrics, ret.TopKRetrieval.add,
              ret._mean_average_precision, ret._mean_reciprocal_rank, ret._dcg_score, ret._ndcg_score, rs.MeanAndVariance.new, rs.MinMaxAndCount.add, rs.Histogram.new,
              mcls.CalibrationHistogram.add, rs.R2Tjur.result, rs.RRegression.result, rs.SymmetricPredictionDifference.add)
  results = srun.run_jobs(worker, jobs)
  srun.absorb(rep, results, classify)
  return rep.finish()
