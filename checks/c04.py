"""C04 - iterator queues deliver every element exactly once and always terminate.

Engine B (pybmc): the current source of IteratorQueue (get_nowait/get_batch/get/put_nowait/put/_start_enqueue/
_stop_enqueue/enqueue_from_iterator/_set_exhausted/enqueue_done/...) and _release_and_notify is parsed, inlined and
lowered to a goto IR per thread; the interleaving is a solver variable at every pre-emption point; z3 (QF_BV) decides
per scenario:  no reachable deadlock, every final state satisfies "each element received exactly once, per-producer
order kept, every consumer ends with StopIteration carrying all return values", and the unwinding query shows that the
depth bound covers every execution. Counterexamples are replayed on the real classes before they are reported.
"""
import os
import time

from vf import common, srun


def scenarios(tier):
  S = []
  def add(name, **kw):
    kw['name'] = name
    S.append(kw)
  # two threads: all interleavings, quick tier
  add('1p1i-1c-get-capsym', nprod=1, items=1, ncons=1, consumer='get', cap=(0, 1), depths=(40, 50, 60, 70))
  add('1p2i-1c-get-unbounded', nprod=1, items=2, ncons=1, consumer='get', cap=0, depths=(40, 50, 60, 70, 80))
  add('1p2i-1c-get-cap1', nprod=1, items=2, ncons=1, consumer='get', cap=1, depths=(40, 50, 60, 70, 80))
  for bs, blk in ((0, 0), (2, 1), (2, 0)):
    add(f'1p1i-1c-batch{bs}-block{blk}', nprod=1, items=1, ncons=1, consumer='batch', cap=0, batch=bs, block=blk, depths=(40, 50, 60, 70))
  add('1p1i-1c-batch2-block1-cap1', nprod=1, items=1, ncons=1, consumer='batch', cap=1, batch=2, block=1, depths=(40, 50, 60, 70))
  # three threads, no elements: the end-of-stream bookkeeping across producers (declared vs. started enqueuers, all return values)
  add('2p0i-1c-get', nprod=2, items=0, ncons=1, consumer='get', cap=0, depths=(30, 40, 50, 60))
  if tier == 'thorough':
    for bs, blk in ((0, 0), (1, 0), (2, 1), (3, 1), (3, 0)):
      add(f'1p2i-1c-batch{bs}-block{blk}', nprod=1, items=2, ncons=1, consumer='batch', cap=0, batch=bs, block=blk, depths=(60, 70, 80, 90, 100))
    add('1p2i-1c-batch2-block1-cap1', nprod=1, items=2, ncons=1, consumer='batch', cap=1, batch=2, block=1, depths=(60, 70, 80, 90, 100))
    add('1p3i-1c-get-cap1', nprod=1, items=3, ncons=1, consumer='get', cap=1, depths=(50, 60, 70, 80, 90, 100, 110))
    add('1p3i-1c-batch2-block1-cap2', nprod=1, items=3, ncons=1, consumer='batch', cap=2, batch=2, block=1, depths=(50, 60, 70, 80, 90, 100, 110))
    add('1p1i-2c-get', nprod=1, items=1, ncons=2, consumer='get', cap=0, depths=(40, 50, 60, 70))
    add('2p1i-1c-get', nprod=2, items=1, ncons=1, consumer='get', cap=0, depths=(40, 50, 60, 70, 80))
    add('2p1i-1c-get-cap1', nprod=2, items=1, ncons=1, consumer='get', cap=1, depths=(40, 50, 60, 70, 80, 90, 100, 110, 120))
    add('2p21i-1c-batch2-block1-cap1', nprod=2, items=(2, 1), ncons=1, consumer='batch', cap=1, batch=2, block=1, depths=(50, 60, 70, 80, 90, 100, 110))
    add('1p2i-2c-get', nprod=1, items=2, ncons=2, consumer='get', cap=0, depths=(50, 60, 70, 80))
    add('1p1i-2c-batch2-block1', nprod=1, items=1, ncons=2, consumer='batch', cap=0, batch=2, block=1, depths=(40, 50, 60, 70))
  return S


from vf.bmc_check import build, worker, absorb, replay  # noqa: E402,F401


def run(tier):
  rep = common.Report('C04', tier, 'model_checking',
                      'Bounded model checking of the real IteratorQueue code: source -> IR (ast) -> macro-step transition relation -> z3 QF_BV with a symbolic '
                      'scheduler. Per scenario three queries decide: deadlock reachable?, bad final state reachable?, and the unwinding query (any thread still '
                      'enabled at the depth bound must be unsat). Counterexamples and one passing execution per scenario are replayed on the real classes with '
                      'controlled primitives (traces_validated_against_impl).')
  sc = scenarios(tier)
  only = os.environ.get('VF_ONLY')
  jobs = [(s, tier) for s in sc if not only or only in s['name']]
  rep.bounds(scenarios=[{k: v for k, v in s.items()} for s in sc],
             note='threads x elements per producer as listed; every interleaving at pre-emption points (blocking acquire, condition wake-up, queue operation, '
                  'unprotected field access, iterator step); capacity / batch size / blocking mode per scenario (symbolic where given as a range)')
  rep.outside('more threads / elements than listed', 'asyncio variants (AsyncIteratorQueue)', 'pre-emption inside a single python-level field access or inside the C queue implementation',
              'timeouts (C05)')
  rep.assume('threading.Condition: FIFO wake-up order, re-entrant lock; queue.SimpleQueue/Queue operations atomic', 'logging / add_note have no effect on control flow',
             'a context switch between two operations that are both protected by a common lock (static must-lockset analysis) is not observable')
  from ml_metrics._src.utils import iter_utils as iu
  rep.encoded(iu.IteratorQueue.get_nowait, iu.IteratorQueue.get_batch, iu.IteratorQueue.get, iu.IteratorQueue.put_nowait, iu.IteratorQueue.put,
              iu.IteratorQueue._start_enqueue, iu.IteratorQueue._stop_enqueue, iu.IteratorQueue.enqueue_from_iterator, iu.IteratorQueue._set_exhausted,
              iu.IteratorQueue.enqueue_done, iu._release_and_notify, iu.is_stop_iteration)
  results = srun.run_jobs(worker, jobs, nproc=min(len(jobs), common.NCPU))
  absorb(rep, results, 'C04')
  return rep.finish()
