"""C18 - tree views obey get/set laws and never mutate the viewed data.

Engine A: CrossHair executes the real TreeMapView (__getitem__/get/set/copy_and_set/copy_and_update/__or__/items/
keys/values/__len__/apply), _set_by_path, _default_tree, _dfs_iter_tree and apply_mask on trees produced by a recursive
builder that is driven by *symbolic choice integers* (per node: leaf / dict with 0-2 keys / list / tuple with 0-2
children); every integer leaf and every value that is set is a symbolic int (so truthiness tests on leaves/values fork).
The generator enumerates only the root family (and, in the thorough tier, a depth-3 frame around a symbolic depth-2
sub-tree); inside one contract function *every* shape of the family and, per shape, *every* target key path
(existing leaf, interior node, fresh dict key, fresh nested path, index-append) is covered.
The oracle is an independent pure-python reference (ref_nodes/ref_get/ref_set/ref_map/same) - it never calls the library.

Cost model (measured): a traced library call costs 5 ms (read) .. 23 ms (copying set) under CrossHair, a path 0.03 s
plus its library calls. Therefore the oracle runs with opcode tracing switched off (NoTracing) and only the builder and
the library calls are traced (see "tracing discipline" in the prelude); the quick tier trims the most expensive families
(flag _FULL = 0: restricted pair set for two successive sets, fewer multi-key forms, children without nested empties for
the heavy families) - the thorough tier runs everything (_FULL = 1) and adds the depth-3 frames.

Obligation families (one contract function per family and root kind / frame):
  set_leaf set_struct fresh hist items apply two inplace special  + empty_roots root_scalar np_interior apply_mask.
"""
import os

from vf import common, xh

PRELUDE = r'''
from ml_metrics._src.chainables import tree
import numpy as _np
Key, Index, Literal, View = tree.Key, tree.Index, tree.Literal, tree.TreeMapView
SELF, SKIP = Key.SELF, Key.SKIP

# ---- tracing discipline ----------------------------------------------------------------------------------------------
# The tree builder (forks on the symbolic choice ints) and EVERY call into the library run under CrossHair's opcode
# tracing. The oracle (fam_* functions and the reference semantics below) only walks real dict/list/tuple objects and
# compares object identities, so it runs with tracing switched off and re-enables it around each library call through
# L(...). Comparisons of symbolic leaf values (`==`) still go to the solver (SymbolicInt.__eq__ / SymbolicBool.__bool__).
if _VF_SYMBOLIC:
  from crosshair.tracers import NoTracing as _NoTracing, ResumedTracing as _ResumedTracing
  def L(f, *a, **k):
    with _ResumedTracing():
      return f(*a, **k)
  def oracle(f):
    def g(*a, **k):
      with _NoTracing():
        return f(*a, **k)
    g.__name__ = f.__name__
    return g
else:
  def L(f, *a, **k): return f(*a, **k)
  def oracle(f): return f
if _VF_SYMBOLIC:
  from crosshair import realize as _real
else:
  def _real(x): return x

def mk(t, **kw): return L(View, t, **kw)
def cs(view, k, v=()): return L(view.copy_and_set, k, v)
def rd(view, k): return L(view.__getitem__, k)
_DFLT = object()
def gd(view, k): return L(view.get, k, _DFLT)

# ---- tree builder driven by choice ints (traced) ---------------------------------------------------------------------
def build(ch, pos, depth, leaves):
  """0 leaf | 1 {'a':.} | 2 {'a':.,'b':.} | 3 [.] | 4 [.,.] | 5 (.,) | 6 (.,.) | 7 {} | 8 [] | 9 (); depth 0 = leaf."""
  c = 0
  if depth > 0:
    c = ch[pos[0]]; pos[0] += 1
  if c == 0:
    v = leaves[pos[1]]; pos[1] += 1
    return v
  d = depth - 1
  if c == 1: return {'a': build(ch, pos, d, leaves)}
  if c == 2: return {'a': build(ch, pos, d, leaves), 'b': build(ch, pos, d, leaves)}
  if c == 3: return [build(ch, pos, d, leaves)]
  if c == 4: return [build(ch, pos, d, leaves), build(ch, pos, d, leaves)]
  if c == 5: return (build(ch, pos, d, leaves),)
  if c == 6: return (build(ch, pos, d, leaves), build(ch, pos, d, leaves))
  if c == 7: return {}
  if c == 8: return []
  return ()

# ---- independent reference semantics (never calls the library) ------------------------------------------------------
# Container classification asks CrossHair proxies (e.g. the ShellMutableMap that a traced `dict(x)` returns) for the python
# type they model: with tracing off `type()` / `isinstance()` are not patched and would see the proxy class.
def _pt(x):
  f = getattr(type(x), '__ch_pytype__', None)
  if f is None: return type(x)
  try: return f(x)
  except Exception: return type(x)
def is_dict(x): return issubclass(_pt(x), dict)
def is_list(x): return issubclass(_pt(x), list)
def is_tuple(x): return issubclass(_pt(x), tuple)
def is_seq(x): return issubclass(_pt(x), (list, tuple))
def is_cont(x): return issubclass(_pt(x), (dict, list, tuple))
def kind(x):
  return 'dict' if is_dict(x) else 'list' if is_list(x) else 'tuple' if is_tuple(x) else None
def is_node(x):
  """interior node = non-empty dict/list/tuple; everything else (ints, empty containers, arrays) is a leaf."""
  return is_cont(x) and len(x) > 0

def ref_nodes(t, prefix=()):
  out = [(prefix, t)]
  if is_dict(t):
    for k, v in t.items(): out += ref_nodes(v, prefix + (k,))
  elif is_seq(t):
    for i, v in enumerate(t): out += ref_nodes(v, prefix + (Index(i),))
  return out

def ref_leaves(t):
  """leaves of a tree whose root is a non-empty container (an empty root container has no leaves)."""
  if not is_node(t): return []
  return [(p, o) for p, o in ref_nodes(t) if not is_node(o)]

def ref_get(t, p):
  for k in p: t = t[k]
  return t

def ref_copy(t):
  if is_dict(t): return {k: ref_copy(v) for k, v in t.items()}
  if is_list(t): return [ref_copy(v) for v in t]
  if is_tuple(t): return tuple(ref_copy(v) for v in t)
  if isinstance(t, _np.ndarray): return _np.array(t.tolist())
  return t

_MISSING = object()
def ref_set(t, p, v):
  """functional update: new tree that differs from t exactly at path p (fresh dict key / index-append create nodes)."""
  if not p: return v
  k, rest = p[0], p[1:]
  if t is _MISSING:
    if isinstance(k, Index):
      if k != 0: raise KeyError('ref: non-zero index into a fresh sequence')
      return [ref_set(_MISSING, rest, v)]
    return {k: ref_set(_MISSING, rest, v)}
  if is_dict(t):
    r = dict(t); r[k] = ref_set(t.get(k, _MISSING), rest, v)
    return r
  if is_seq(t):
    r = list(t)
    if k == len(r): r.append(ref_set(_MISSING, rest, v))
    else: r[k] = ref_set(r[k], rest, v)
    return tuple(r) if is_tuple(t) else r
  if isinstance(t, _np.ndarray):
    r = _np.array(t.tolist())
    if rest: r[k] = ref_set(r[k], rest, v)
    else: r[k] = v
    return r
  raise KeyError('ref: path descends into a leaf')

def ref_map(t, f):
  if not is_node(t): return f(t)
  if is_dict(t): return {k: ref_map(v, f) for k, v in t.items()}
  if is_list(t): return [ref_map(v, f) for v in t]
  return tuple(ref_map(v, f) for v in t)

def same(a, b):
  """strict structural equality: container types, sizes, keys and leaves agree (list != tuple)."""
  if a is b: return True
  if isinstance(a, _np.ndarray) or isinstance(b, _np.ndarray):
    return (isinstance(a, _np.ndarray) and isinstance(b, _np.ndarray) and a.shape == b.shape
            and a.tolist() == b.tolist())
  if is_cont(a) or is_cont(b):
    if kind(a) != kind(b) or len(a) != len(b): return False
    if is_dict(a):
      for k in a:
        if k not in b or not same(a[k], b[k]): return False
      return True
    for x, y in zip(a, b):
      if not same(x, y): return False
    return True
  return L(lambda: bool(a == b))              # leaf values: a solver question when they are symbolic

def _prefix(a, b): return len(a) <= len(b) and b[:len(a)] == a
def _related(a, b): return _prefix(a, b) or _prefix(b, a)
def _fork(a, b):
  i = 0
  while i < len(a) and i < len(b) and a[i] == b[i]: i += 1
  return a[:i]

def unchanged(t, snap, before):
  """the original equals its deep snapshot and every node (at every depth) is still the very same object."""
  if not same(t, snap): return False
  for q, o in before:
    if ref_get(t, q) is not o: return False
  return True

def shared(new_data, before, *ps):
  """frame condition on the data: every node of the original that is not on / below one of the set paths is the
  IDENTICAL object in the new tree (other leaves read as before, untouched sub-trees are shared, not copied)."""
  for q, o in before:
    if not any(_related(p, q) for p in ps) and ref_get(new_data, q) is not o: return False
  return True

def targets(t, kinds):
  """candidate key paths of tree t: existing leaves / interior nodes / fresh dict keys / fresh nested paths / appends."""
  out = []
  for p, o in ref_nodes(t):
    if p and 'leaf' in kinds and not is_node(o): out.append(p)
    if p and 'node' in kinds and is_node(o): out.append(p)
    if is_dict(o):
      if 'fresh' in kinds: out.append(p + ('c',))
      if 'deep' in kinds: out += [p + ('c', 'd'), p + ('c', Index(0))]
    elif is_seq(o):
      n = len(o)
      if 'append' in kinds: out.append(p + (Index(n),))
      if 'deep' in kinds: out += [p + (Index(n), 'd'), p + (Index(n), Index(0))]
  return out

# ---- law: iteration lists every leaf exactly once with a path that reads it back --------------------------------
def iter_ok(view, full=1):
  """keys() lists every leaf path exactly once (and nothing else); len agrees; full: items()/values()/iter() agree
  and every listed path reads back the identical leaf object through the view."""
  t = view.data
  leaves = ref_leaves(t)
  keys = L(view.keys)
  if len(keys) != len(leaves) or (full >= 0 and L(len, view) != len(leaves)): return False
  plain = [tuple(k) for k in keys]
  for p, o in leaves:
    if plain.count(p) != 1: return False
  if full <= 0: return True
  items = L(lambda: list(view.items())); vals = L(view.values); it = L(list, view)
  if len(items) != len(keys) or len(vals) != len(keys) or len(it) != len(keys): return False
  for i, k in enumerate(keys):
    o = ref_get(t, tuple(k))
    if is_node(o): return False
    if rd(view, k) is not o or items[i][1] is not o or vals[i] is not o: return False
    if tuple(items[i][0]) != tuple(k) or tuple(it[i]) != tuple(k): return False
  return True

# ---- law: copying set (get-after-set, frame, original untouched, sharing) -------------------------------------------
def check_set(t, p, v, touch=0, via=0, absent=(), reads=0):
  snap = ref_copy(t); before = ref_nodes(t)
  view = mk(t)
  if touch == 1:      # history: the source view has been looked at before the copy is derived
    if L(len, view) != len(ref_leaves(t)): return False
  elif touch == 2: L(view.keys)
  elif touch == 3: L(lambda: list(view.items()))
  if via == 0: new = cs(view, Key(p), v)
  elif via == 1: new = L(view.copy_and_update, {Key(p): v})
  elif via == 2: new = L(lambda: view | [(Key(p), v)])
  else: new = L(view.set, Key(p), v, in_place=False)
  if new is view or view.data is not t: return False
  if not unchanged(t, snap, before): return False
  got = rd(new, Key(p))
  if not (got is v or same(got, v)): return False
  if not same(new.data, ref_set(snap, p, v)): return False
  if not shared(new.data, before, p): return False       # every other path holds the identical object (data level)
  if reads:
    if gd(new, Key(p)) is not got: return False
    for q, o in before:                                   # ... and reads it through the view (leaves; reads=2: all nodes)
      if not _related(p, q) and (reads == 2 or not is_node(o)) and rd(new, Key(q)) is not o: return False
  existing = [q for q, _ in before]
  for q in absent:
    # other non-existing paths (diverging from p at a node that already existed) still read the default
    if not _related(p, q) and _fork(p, q) in existing and gd(new, Key(q)) is not _DFLT: return False
  if touch and not (iter_ok(new, 0) and iter_ok(view, -1)): return False
  return True

@oracle
def fam_set_leaf(t, v):
  """every existing leaf path: set to a symbolic int; and set to its current value (no-op law)."""
  for n, (p, o) in enumerate(ref_leaves(t)):
    if not check_set(t, p, v, via=n % 4, reads=2): return False
    new = cs(mk(t), Key(p), o)                      # set to the current value: nothing changes
    if not same(new.data, t) or rd(new, Key(p)) is not o: return False
  return True

@oracle
def fam_set_struct(t, v):
  """sub-tree -> leaf, leaf -> sub-tree replacements."""
  for p in targets(t, ('node',)):
    if not check_set(t, p, v): return False
    cur = ref_get(t, p)
    new = cs(mk(t), Key(p), cur)                    # no-op law on an interior node
    if not same(new.data, t) or rd(new, Key(p)) is not cur: return False
  for n, p in enumerate(targets(t, ('leaf',))):
    for val in ([v], {'z': v}, (v, v)):
      if not check_set(t, p, val): return False
  return True

@oracle
def fam_fresh(t, v):
  """fresh dict keys, fresh nested paths (default sub-tree is created), index-append on lists and tuples."""
  absent = targets(t, ('fresh', 'append'))
  view = mk(t)
  for p in absent:                                  # non-existing paths read the default, before any set
    if gd(view, Key(p)) is not _DFLT: return False
  for p in absent:
    if not check_set(t, p, v, absent=absent, reads=1): return False
  for p in targets(t, ('deep',)):
    if not check_set(t, p, v): return False
  return True

@oracle
def fam_hist(t, v):
  """history: iterate the view first, then derive copies that change the structure; iterate source and copy again."""
  n = 0
  for p in targets(t, ('fresh', 'append', 'node')):
    n += 1
    if not check_set(t, p, v, touch=1 + n % 3): return False
  for p in targets(t, ('leaf',)):
    n += 1
    if not check_set(t, p, {'z': [v]}, touch=1 + n % 3): return False
  # the same for an in-place set on a view that has been iterated
  for p in targets(t, ('fresh', 'append') if _FULL else ('fresh',)):
    t2 = ref_copy(t)
    if any(is_tuple(o) for q, o in ref_nodes(t2) if _prefix(q, p) and q != p): continue
    w = mk(t2)
    L(w.keys)
    L(w.set, Key(p), v)
    if not same(w.data, ref_set(t, p, v)) or not iter_ok(w, 0): return False
  return True

@oracle
def fam_iter(t, v):
  """Leaf enumeration only (keys / values / items / len against the reference) - the cheap core of fam_items."""
  return iter_ok(mk(t))

# ---- law: iteration / multi-key reads / special keys -------------------------------------------------------------
@oracle
def fam_items(t, v):
  view = mk(t)
  if not iter_ok(view): return False
  cands = [(Key(p), o) for p, o in ref_nodes(t)]
  cands += [(SELF, t), (Literal(v), v), (Key((Literal(v),)), v)]
  for p, o in ref_nodes(t):
    if len(p) == 1: cands.append((p[0], o))         # plain (non-Key) single keys
    if is_node(o): cands += [(Key(p + (SELF,)), o), (Key(p + (Literal(v),)), v)]
  for n, (k, o) in enumerate(cands):
    if (gd(view, k) if n % 2 else rd(view, k)) is not o: return False   # view[k] and view.get(k) alternate
  ks = tuple(k for k, _ in cands)
  want = [o for _, o in cands]
  for keys, exp in ((ks, want), (ks[::-1], want[::-1]), (list(ks), want))[:3 if _FULL else 2]:
    r = rd(view, keys)
    if not is_tuple(r) or len(r) != len(keys): return False
    for x, y in zip(r, exp):
      if x is not y: return False
  r = L(view.get, (cands[-1][0], cands[0][0]), _DFLT)
  if not is_tuple(r) or len(r) != 2 or r[0] is not cands[-1][1] or r[1] is not cands[0][1]: return False
  r = rd(view, (cands[0][0],))
  if not is_tuple(r) or len(r) != 1 or r[0] is not cands[0][1]: return False
  if rd(view, ()) != (): return False
  # a selecting view (key_paths) iterates exactly the selected keys
  leaves = ref_leaves(t)
  sel = tuple(Key(p) for p, _ in leaves[::2])
  sview = mk(t, key_paths=sel)
  if L(sview.keys) != sel or L(len, sview) != len(sel): return False
  vals = L(sview.values)
  for i, (p, o) in enumerate(leaves[::2]):
    if vals[i] is not o: return False
  return True

# ---- law: apply maps every leaf and only leaves -----------------------------------------------------------------------
def _tag(x): return ('M', x)

@oracle
def fam_apply(t, v):
  snap = ref_copy(t); before = ref_nodes(t)
  r = L(lambda: View.as_view(t, map_fn=_tag).apply())
  if not same(r, ref_map(snap, _tag)): return False
  if not unchanged(t, snap, before): return False
  if L(lambda: View(t).apply()) is not t: return False   # no function, no selection: the data itself
  mv = mk(t, map_fn=_tag)
  for p, o in ref_leaves(t):                        # reads through a mapping view map the leaf
    g = rd(mv, Key(p))
    if not is_tuple(g) or len(g) != 2 or g[1] is not o: return False
  # apply on a selection maps the selected leaves only
  lv = ref_leaves(t)
  for p, o in (lv if _FULL else lv[:1] + lv[-1:]):        # (quick tier: first and last leaf as the selection)
    r = L(lambda: View(t, key_paths=(Key(p),), map_fn=_tag).apply())
    if not same(r, ref_set(snap, p, _tag(o))) or not shared(r, before, p): return False
  if not unchanged(t, snap, before): return False
  # apply with an int function (all leaves ints: no nested empty container); kept to the small shapes
  if len(ref_leaves(t)) <= 2 and not any(is_cont(o) for _, o in ref_leaves(t)):
    r = L(lambda: View.as_view(t, map_fn=lambda x: x + v).apply())
    if not same(r, ref_map(snap, lambda x: L(lambda: x + v))): return False
  return unchanged(t, snap, before)

# ---- law: sequences of two copying sets --------------------------------------------------------------------------
@oracle
def fam_two(t, a, b, kinds, allpairs):
  snap = ref_copy(t); before = ref_nodes(t)
  tg = targets(t, kinds)
  leafs = targets(t, ('leaf',))
  v0 = mk(t)
  for p1 in tg:
    v1 = cs(v0, Key(p1), a)
    s1 = ref_copy(v1.data); n1 = ref_nodes(v1.data)
    e1 = ref_set(snap, p1, a)
    if not same(v1.data, e1): return False
    for p2 in tg:
      if p1 != p2 and _related(p1, p2): continue    # second path would descend into the int that was just set
      if not allpairs and p1 != p2 and p1 not in leafs and p2 not in leafs: continue   # (thorough tier: all pairs)
      v2 = cs(v1, Key(p2), b)
      if not unchanged(t, snap, before) or not unchanged(v1.data, s1, n1): return False
      if not same(v2.data, ref_set(e1, p2, b)): return False
      if not shared(v2.data, before, p1, p2) or not shared(v2.data, n1, p2): return False
      if not (p1 in leafs and p2 in leafs): continue   # reads and multi-key forms: pairs of existing leaves
      if rd(v2, Key(p2)) is not b: return False
      if p1 != p2 and rd(v2, Key(p1)) is not a: return False
      # one multi-key form per ordered pair: they are the same sequence of sets
      i1, i2 = leafs.index(p1), leafs.index(p2)
      if i1 < i2 or (allpairs and i1 != i2):
        v3 = cs(v0, (Key(p1), Key(p2)), (a, b))
        if not same(v3.data, v2.data): return False
      if i1 > i2 or (allpairs and i1 != i2):
        v5 = L(v0.copy_and_update, {Key(p1): a, Key(p2): b})
        if not same(v5.data, v2.data): return False
        r = rd(v5, (Key(p1), Key(p2)))
        if not is_tuple(r) or len(r) != 2 or r[0] is not a or r[1] is not b: return False
      if i1 == i2:
        v4 = L(lambda: v0 | [(Key(p1), a), (Key(p2), b)])     # the later pair wins
        if not same(v4.data, v2.data): return False
  return unchanged(t, snap, before)

# ---- law: in-place set vs copying set ------------------------------------------------------------------------------
@oracle
def fam_inplace(t, v, kinds):
  first = True
  for p in targets(t, kinds):
    t2 = ref_copy(t); snap = ref_copy(t)
    before = ref_nodes(t2)
    tuple_on_path = any(is_tuple(o) for q, o in before if _prefix(q, p) and q != p)
    # (the library formats the value into its error message: keep it concrete where the set may be refused)
    val = 12345 if tuple_on_path else v
    want = ref_set(snap, p, val)
    view = mk(t2)
    try:
      r = L(view.set, Key(p), val)
    except (KeyError, TypeError):
      if tuple_on_path: continue                    # immutable container on the path: in-place set may refuse
      return False
    if r is not view or view.data is not t2: return False
    if not same(t2, want) or rd(view, Key(p)) is not val: return False
    if not tuple_on_path:
      for q, o in before:                           # in place: every pre-existing container is still the same object
        if (not _related(p, q) or (_prefix(q, p) and q != p)) and ref_get(t2, q) is not o: return False
      if first:
        first = False
        view2 = mk(ref_copy(t))
        L(view2.__setitem__, Key(p), v)             # __setitem__ is the in-place set
        if not same(view2.data, want): return False
        if not same(cs(mk(t), Key(p), v).data, want): return False   # in-place and copying set agree
  return True

# ---- special keys: SELF, SKIP, empty key tuple ------------------------------------------------------------------------
@oracle
def fam_special(t, a, b):
  snap = ref_copy(t); before = ref_nodes(t)
  view = mk(t)
  for k in (Key(), SELF, Key((SELF,)), Key.new(SELF)):
    new = cs(view, k, a)
    if new.data is not a or new is view: return False
  if rd(view, SELF) is not t or rd(view, Key()) is not t: return False
  new = cs(view, ())                                # no keys: same data
  if new.data is not t: return False
  for k in (SKIP, Key((SKIP,))):
    new = cs(view, k, a)                            # SKIP: the value is dropped
    if not same(new.data, snap): return False
    for q, o in before:
      if len(q) == 1 and ref_get(new.data, q) is not o: return False
  for p in targets(t, ('leaf', 'fresh')):
    want = ref_set(snap, p, a)
    for keys, vals in (((Key(p), SKIP), (a, b)), ((SKIP, Key(p)), (b, a))):
      new = cs(view, keys, vals)
      if not same(new.data, want) or rd(new, Key(p)) is not a: return False
      if not shared(new.data, before, p): return False
  for p in targets(t, ('leaf',)):
    want = ref_set(snap, p, a)
    new = cs(view, Key(p + (SELF,)), a)             # SELF at the end of a path selects the node itself
    if not same(new.data, want): return False
    new = cs(view, (Key(p),), (a,))                 # single key inside a tuple
    if not same(new.data, want): return False
    new = cs(view, (Key(p),), (a, b))               # one key, several values: the tuple is the value
    if not same(new.data, ref_set(snap, p, (a, b))): return False
  return unchanged(t, snap, before)

# ---- empty containers / the empty view as root -------------------------------------------------------------------
@oracle
def fam_empty_roots(v):
  for t, p, want in (({}, ('c',), {'c': v}), ([], (Index(0),), [v]), ((), (Index(0),), (v,)),
                     ({}, ('c', Index(0), 'd'), {'c': [{'d': v}]}), ([], (Index(0), 'd'), [{'d': v}])):
    view = mk(t)
    if not iter_ok(view): return False                    # no leaves: nothing is listed
    if not check_set(t, p, v, touch=2): return False
    if not same(cs(view, Key(p), v).data, want): return False
    r = L(lambda: View.as_view(t, map_fn=_tag).apply())
    if not same(r, t) or len(t) != 0: return False
  # a view without data: any path creates the default tree
  for p, want in ((('c',), {'c': v}), ((Index(0),), [v]), (('c', 'd'), {'c': {'d': v}}), (('c', Index(0)), {'c': [v]})):
    new = cs(L(View), Key(p), v)
    if not same(new.data, want) or rd(new, Key(p)) is not v or not iter_ok(new): return False
  return True

# ---- a scalar as the root (degenerate tree: the only path is SELF) ---------------------------------------------------
@oracle
def fam_root_scalar(v, a):
  view = mk(v)
  keys = L(view.keys)
  if len(keys) != 1 or tuple(keys[0]) != (SELF,) or L(len, view) != 1: return False
  if rd(view, keys[0]) is not v or rd(view, SELF) is not v or rd(view, Key()) is not v: return False
  mv = mk(v, map_fn=_tag)
  g = rd(mv, SELF)
  if not is_tuple(g) or len(g) != 2 or g[1] is not v: return False
  if not same(L(mv.apply), ('M', v)): return False
  new = cs(view, SELF, a)
  return new.data is a and view.data is v

# ---- numpy arrays as INTERIOR nodes: concrete structure; the value is enumerated (realized) by the solver --------
def fam_np(v):
  v = _real(v)
  for i in range(3):                                      # 1-D array below a list below a dict
    arr = _np.array([1, 2, 3]); inner = [2, 3, 4]
    data = {'a': 1, 'b': [arr, inner]}
    p = ('b', Index(0), Index(i))
    if not check_set(data, p, v): return False
    if data['b'][0] is not arr or arr.tolist() != [1, 2, 3]: return False
    new = cs(mk(data), Key(p), arr[i])                    # no-op law through an array
    if not same(new.data, data) or arr.tolist() != [1, 2, 3]: return False
    new = L(mk(data).copy_and_update, {Key(p): v, Key(('b', Index(1), Index(0))): v})
    if arr.tolist() != [1, 2, 3] or inner != [2, 3, 4] or new.data['b'][1] != [v, 3, 4]: return False
  for i in range(2):                                      # 2-D array as the root: two array levels on the path
    for j in range(3):
      mat = _np.arange(6).reshape(2, 3)
      if not check_set(mat, (Index(i), Index(j)), v): return False
      if mat.tolist() != [[0, 1, 2], [3, 4, 5]]: return False
  # two successive copying sets into the same array: every intermediate stays intact
  w = _np.zeros(3, dtype=int)
  data = {'w': w, 'meta': ('k', [1, 2])}
  v0 = mk(data)
  if not iter_ok(v0): return False                        # arrays are leaves for iteration
  v1 = cs(v0, Key(('w', Index(0))), v)
  v2 = cs(v1, Key(('w', Index(2))), v + 1)
  if w.tolist() != [0, 0, 0] or v1.data['w'].tolist() != [v, 0, 0] or v2.data['w'].tolist() != [v, 0, v + 1]: return False
  if data['w'] is not w or v2.data['meta'] is not data['meta']: return False
  return True

# ---- apply_mask: element masks, nested masks, broadcasting a mask over the leaves of a dict (TreeMapView.apply) ----
def fam_mask(b0, b1, b2, v):
  am = tree.apply_mask
  m = [b0, b1, b2]
  keep = [i for i in range(3) if m[i]]
  xs = [10, 11, 12]
  if am(list(xs), masks=m) != [xs[i] for i in keep]: return False
  if am(tuple(xs), masks=m) != tuple(xs[i] for i in keep): return False
  if am(list(xs), masks=m, replace_false_with=v) != [xs[i] if m[i] else v for i in range(3)]: return False
  nested = {'k': (10, 11), 'l': [12]}
  r = am(nested, masks={'k': [b0, b1], 'l': b2})
  want = {'k': tuple(x for x, b in ((10, b0), (11, b1)) if b)}
  if b2: want['l'] = [12]
  if not same(r, want) or nested != {'k': (10, 11), 'l': [12]}: return False
  if am(nested, masks=True) is not nested: return False
  # a flat mask is broadcast to every (array) leaf of a dict, and only to leaves
  a1 = _np.array([1, 2, 3]); a2 = _np.array([4, 5, 6])
  items = {'a': a1, 'b': {'c': a2}}
  r = am(items, masks=m)
  if not is_dict(r) or list(r) != ['a', 'b'] or not is_dict(r['b']) or list(r['b']) != ['c']: return False
  if r['a'].tolist() != [[1, 2, 3][i] for i in keep] or r['b']['c'].tolist() != [[4, 5, 6][i] for i in keep]: return False
  return items['a'] is a1 and items['b']['c'] is a2 and a1.tolist() == [1, 2, 3] and a2.tolist() == [4, 5, 6]
'''


def _args(nc, nl, extra):
  ps = [f'c{j}: int' for j in range(nc)] + [f'l{j}: int' for j in range(nl)] + [f'{e}: int' for e in extra]
  return ', '.join(ps)


def templates(tier):
  """(tag, tree expression, number of choice ints, number of leaves, pre on the root choice). T = symbolic sub-tree of depth 2."""
  T = 'build([c0, c1, c2], [0, 0], 2, [l0, l1, l2, l3])'
  out = [('dict', T, 3, 4, '1 <= c0 <= 2'), ('list', T, 3, 4, '3 <= c0 <= 4'), ('tuple', T, 3, 4, '5 <= c0 <= 6')]
  if tier == 'thorough':
    for tag, expr in (('d3_d1', "{'a': %s}"), ('d3_d2a', "{'a': %s, 'b': l4}"), ('d3_d2b', "{'a': l4, 'b': %s}"),
                      ('d3_l1', '[%s]'), ('d3_l2a', '[%s, l4]'), ('d3_l2b', '[l4, %s]'),
                      ('d3_t1', '(%s,)'), ('d3_t2a', '(%s, l4)'), ('d3_t2b', '(l4, %s)')):
      out.append((tag, expr % T, 3, 5, '0 <= c0 <= 9'))
  return out


# family -> (extra symbolic ints, call, heavy). Heavy families use the smaller child-choice range in the quick tier.
FAMILIES = {   # heaviest first (they are started first)
    'two': (['a', 'b'], "fam_two(t, a, b, ('leaf', 'fresh', 'append'), AP)", True),
    'hist': (['v'], 'fam_hist(t, v)', True),
    'special': (['a', 'b'], 'fam_special(t, a, b)', True),
    'items': (['v'], 'fam_items(t, v)', False),
    'apply': (['v'], 'fam_apply(t, v)', False),
    'fresh': (['v'], 'fam_fresh(t, v)', False),
    'set_struct': (['v'], 'fam_set_struct(t, v)', True),
    'inplace': (['v'], "fam_inplace(t, v, ('leaf', 'node', 'fresh', 'append'))", False),
    'set_leaf': (['v'], 'fam_set_leaf(t, v)', False),
}


def gen(tier, cmax, cmax_heavy, full, cmax_heavy_d3=6):
  F = xh.fn
  s = [PRELUDE, f'_FULL = {int(full)}   # 1: thorough tier (all pairs / all selections / all forms)']
  A = s.append
  for tag, expr, nc, nl, pre in templates(tier):
    d3 = tag.startswith('d3_')
    for fam, (extra, call, heavy) in FAMILIES.items():
      # depth-3 frames (thorough tier): heavy families keep the smaller child range and the restricted pair set
      cm = (cmax_heavy_d3 if d3 else cmax_heavy) if heavy else cmax
      call = call.replace('AP', '0' if d3 else '_FULL')
      # the two most expensive families are split by the root choice of T on the depth-3 frames (balance, timeout margin)
      splits = [('_c02', '0 <= c0 <= 2'), ('_c34', '3 <= c0 <= 4'), ('_c59', '5 <= c0 <= 9')] if d3 and fam in ('two', 'hist') else [('', pre)]
      for sfx, pre0 in splits:
        A(F(f'ob_{fam}_{tag}{sfx}', _args(nc, nl, extra), f'{pre0} and 0 <= c1 <= {cm} and 0 <= c2 <= {cm}', f"""
      t = {expr}
      return {call}"""))
  # ---- the same (non-empty) container object at two positions of the tree: sharing is not a cycle, every leaf is listed and mapped
  T2 = 'build([c0, c1, c2], [0, 0], 2, [l0, l1, l2, l3])'
  for tag, frame in (('dict', "{'a': s_, 'b': s_}"), ('list', '[s_, s_]'), ('tuple', '(s_, s_)'), ('nested', "{'a': [s_], 'b': s_}")):
    for fam in ('iter', 'apply'):
      extra, call, _ = FAMILIES[fam] if fam in FAMILIES else (['v'], 'fam_iter(t, v)', False)
      A(F(f'ob_shared_{fam}_{tag}', _args(3, 4, extra), f'1 <= c0 <= 6 and 0 <= c1 <= {cmax if full else 4} and 0 <= c2 <= {cmax if full else 4}', f"""
      t = (lambda s_: {frame})({T2})
      return {call}"""))
  # ---- one multi-key copying set whose 2nd key installs a container that also lives elsewhere in the viewed tree under a node the
  #      1st key already went through, and whose 3rd key writes below that node again: the viewed data and the other path stay intact
  for tag, mk_t, ka, kax, kaz, kb in (
      ('dict', "{'a': {'x': l0, 'z': l1}, 'b': {'x': l2, 'z': l3}}", "'a'", "Key(('a', 'x'))", "Key(('a', 'z'))", "'b'"),
      ('list', "[[l0, l1], [l2, l3]]", "Key((Index(0),))", "Key((Index(0), Index(0)))", "Key((Index(0), Index(1)))", "Key((Index(1),))")):
    A(F(f'ob_multikey_alias_{tag}', 'l0: int, l1: int, l2: int, l3: int, v: int, w: int', 'True', f"""
      import copy as _cp
      t = {mk_t}
      snap = _cp.deepcopy(t)
      b_obj = View(t)[{kb}]
      new = View(t).copy_and_set(({kax}, {ka}, {kaz}), (v, b_obj, w))
      ok = t == snap and View(t)[{kb}] is b_obj                                   # the viewed data is unchanged at every depth
      ok = ok and new[{kax}] == l2 and new[{kaz}] == w                             # sequential semantics of the three sets
      ok = ok and new[{kb}] == snap[{'"b"' if tag == 'dict' else 1}]                # the unrelated path reads as before
      return ok"""))
  A(F('ob_empty_roots', 'v: int', 'True', 'return fam_empty_roots(v)'))
  A(F('ob_root_scalar', 'v: int, a: int', 'v != 0', 'return fam_root_scalar(v, a)'))
  A(F('ob_np_interior', 'v: int', '0 <= v <= 2', 'return fam_np(v)'))
  A(F('ob_apply_mask', 'b0: bool, b1: bool, b2: bool, v: int', '0 <= v <= 1', 'return fam_mask(b0, b1, b2, v)'))
  # ---- vacuity witnesses: the interesting situations are reachable inside the bounds ------------------------------
  wa = _args(3, 4, ['v'])
  wpre = f'1 <= c0 <= 6 and 0 <= c1 <= {cmax} and 0 <= c2 <= {cmax}'
  T = 'build([c0, c1, c2], [0, 0], 2, [l0, l1, l2, l3])'
  A(F('wit_depth2_four_leaves', wa, wpre, f"""
      t = {T}
      lv = ref_leaves(t)
      return not (len(lv) == 4 and all(len(p) == 2 for p, _ in lv) and isinstance(t, tuple) and isinstance(t[1], dict))"""))
  A(F('wit_tuple_on_path_falsy_leaf', wa, wpre, f"""
      t = {T}
      return not (isinstance(t, list) and len(t) == 2 and isinstance(t[0], tuple) and len(t[0]) == 2 and l0 == 0 and l1 != 0
                  and View(t).copy_and_set(Key((Index(0), Index(1))), v)[Key((Index(0), Index(1)))] == v and v < 0)"""))
  A(F('wit_nested_empty_is_leaf', wa, wpre, f"""
      t = {T}
      return not (isinstance(t, dict) and len(t) == 2 and t['a'] == [] and isinstance(t['b'], list) and len(View(t)) == 3)"""))
  A(F('wit_append_and_fresh_targets', wa, wpre, f"""
      t = {T}
      return not (len(targets(t, ('fresh',))) == 2 and len(targets(t, ('append',))) == 1 and len(targets(t, ('node',))) == 2)"""))
  return '\n'.join(s)


def classify(name, call):
  return name


def run(tier):
  rep = common.Report('C18', tier, 'other',
                      'Bounded symbolic execution (CrossHair/z3) of the real TreeMapView code. Tree shapes are chosen by symbolic choice '
                      'integers (the solver decides which shapes are feasible and CrossHair explores every one of them), integer leaves and '
                      'the values that are set are symbolic ints; per shape every target key path is checked against an independent '
                      'pure-python reference semantics (functional update, leaf enumeration, leaf map) plus object-identity frame conditions. '
                      '"discharged" = CrossHair reported "Confirmed over all paths"; counterexamples are replayed concretely before being reported.')
  from ml_metrics._src.chainables import tree
  V = tree.TreeMapView
  rep.encoded(V.__getitem__, V._TreeMapView__get, V.get, V.__iter__, V.__len__, V.keys, V.values, V._set_by_path, V.set,
              V.__setitem__, V.copy_and_set, V.copy_and_update, V.__or__, V.apply, V.as_view, V._maybe_map,
              tree._default_tree, tree._dfs_iter_tree, tree._is_key, tree.apply_mask)
  if tier == 'quick':
    p = dict(cmax=9, cmax_heavy=6, full=0)
    timeout = 180
  else:
    p = dict(cmax=9, cmax_heavy=9, full=1, cmax_heavy_d3=6)
    timeout = 1200
  rep.bounds(
      per_condition_timeout_s=timeout, **p,
      shapes='node choice: 0 int leaf | 1 {a} | 2 {a,b} | 3 [.] | 4 [.,.] | 5 (.,) | 6 (.,.) | 7 {} | 8 [] | 9 (); root = non-empty dict/list/tuple '
             '(one contract function per root family), children chosen by symbolic ints in 0..cmax (heavy families two/hist/special/set_struct: '
             '0..cmax_heavy), depth 2' + ('' if tier == 'quick' else
             '; plus 9 depth-3 frames {a:T} {a:T,b:leaf} {a:leaf,b:T} [T] [T,leaf] [leaf,T] (T,) (T,leaf) (leaf,T) around a symbolic depth-2 '
             'sub-tree T (any of the 10 choices at its root; heavy families: children 0..cmax_heavy_d3 and restricted pairs)'),
      targets='per shape: every existing leaf path, every interior node path, a fresh key at every dict node, fresh nested paths (c,d) / (c,[0]) / '
              '([n],d) / ([n],[0]) at every container, index-append at every list and tuple (incl. nested empty ones)',
      values='every int leaf, every set value: unbounded symbolic int; sub-tree values [v], {z: v}, (v, v), {z: [v]}',
      laws=dict(
          set_leaf='get-after-copy_and_set (4 API forms: copy_and_set, copy_and_update, |, set(in_place=False)); every other node of the original is '
                   'the IDENTICAL object in the result and is read back identically through the view; original == deep snapshot and every node of it is still '
                   'the same object; result == reference update (container types preserved); set-to-current-value leaves data equal',
          set_struct='same laws for sub-tree -> leaf and leaf -> sub-tree replacement; no-op law on interior nodes',
          fresh='same laws for fresh dict keys / nested default trees / index-append; other absent paths stay absent (get default)',
          hist='history "inspect the view (len | keys | items), then derive a copy that changes the structure": keys()/len() of the derived and of the '
               'source view list exactly the leaves; same for in-place set on an inspected view',
          items='keys()/items()/values()/iter()/len(): every leaf exactly once, path reads back the identical leaf; single-key reads of every node via '
                'Key path / plain key / path+SELF / Literal; multi-key reads (tuple, reversed tuple' + (', list' if tier != 'quick' else '') + ') aligned with the keys; key_paths selection',
          apply='apply(map_fn) == reference leaf map (every leaf incl. nested empty containers, only leaves), original untouched; apply() without function '
                'is the data; reads through a mapping view; apply on a key_paths selection maps exactly the selected leaf (' +
                ('every leaf' if tier != 'quick' else 'first and last leaf') + ' as selection)',
          two='two successive copy_and_set (pairs of targets: ' + ('all pairs at depth 2; ' if tier != 'quick' else '') +
              'at least one existing leaf, or the same target twice): final == reference, original and the intermediate view untouched at every depth, '
              'untouched nodes shared with both; multi-key copy_and_set / copy_and_update(dict) / | (pairs) equal the sequence',
          inplace='in-place set/__setitem__: returns the view, root and every container on and off the path keep their identity, result == copying set; '
                  'refusal (KeyError/TypeError) accepted only with a tuple on the path',
          special='Key() / SELF / (SELF,) as set path replace the root; () sets nothing; SKIP drops the value (alone and inside multi-key sets); '
                  'path+SELF; single key in a tuple; one key with several values',
          extra='empty roots {} [] () and the data-less view; scalar root; numpy arrays as interior nodes (concrete structure); apply_mask'))
  rep.outside(
      'trees deeper than the depth bound / fan-out > 2 / dict keys other than a, b (fresh: c, d, z)',
      'numpy arrays as interior nodes with symbolic content: CrossHair cannot keep ints symbolic inside numpy; ob_np_interior uses a fixed '
      'structure ({a:1, b:[array([1,2,3]), [2,3,4]]}, 2x3 array as root, {w: zeros(3)}), all element positions, set value enumerated by the solver in 0..2',
      'Literal as a key of a *set* operation (only reads are claimed)', 'negative / out-of-range indices and other failing key paths (error behaviour is not part of the property)',
      'a falsy scalar as the root of a view (TreeMapView(0) lists no key; scalar roots are outside "nested mapping/sequence"; ob_root_scalar assumes root != 0)',
      'strict=True views, DataFrame-like MapLikes, str leaves',
      'in-place set(Key()/SELF) on the root (returns the unchanged view by construction)')
  rep.assume(
      'oracle code (reference semantics, identity comparisons) runs with CrossHair opcode tracing switched off (crosshair.tracers.NoTracing); the tree builder and '
      'every library call run traced (ResumedTracing); comparisons of symbolic leaf values are traced solver queries',
      'container classification in the oracle honours CrossHair proxy objects (__ch_pytype__), e.g. the ShellMutableMap returned by a traced dict(x)',
      'in-place sets that may be refused (tuple on the path) use the concrete value 12345: the library formats the value into the error message and '
      'CrossHair cannot format symbolic ints', 'crosshair.realize enumerates the set value in ob_np_interior',
      'CrossHair 0.0.110 + z3 sound for int/dict/list/tuple/match-statement semantics; CPython 3.12')
  only = os.environ.get('VF_ONLY')
  xh.run_module(rep, gen(tier, **p), 'c18_h', timeout, classify=classify, only=(lambda n: only in n) if only else None)
  return rep.finish()
