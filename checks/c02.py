"""C02 - pipeline aggregation and slicing equal a brute-force group-by.

Engine S (symx): the real TreeTransform.aggregate/add_aggregate/add_slice -> TransformRunner.update_state/get_result ->
Slicer._slice_mask_fn/iterate_and_slice -> TreeFn._get_inputs/_apply_masks -> tree.apply_mask run on symbolic batches
(metric inputs are z3 reals, slice features are z3 ints concretised where the code hashes them). The oracle is a
group-by written directly over the same rows. Slicer kinds, stacked aggregates and the composition of rows into batches
are enumerated; per path z3 proves the reported values equal the group-by values, and the reported key set is
compared exactly.
"""
import itertools
import os

import numpy as np
import z3

from vf import common, srun, symx

SV = symx.SV


def _mods():
  import importlib
  return tuple(importlib.import_module('ml_metrics._src.' + n) for n in
               ('chainables.tree', 'chainables.tree_fns', 'aggregates.rolling_stats', 'utils.math_utils', 'aggregates.utils'))


def flat(xs):
  out = []
  for x in xs:
    if isinstance(x, (list, tuple, np.ndarray)) and not isinstance(x, SV):
      out += flat(x)
    else:
      out.append(x)
  return out


def make_sumagg():
  from ml_metrics._src.aggregates import base

  class SumAgg(base.AggregateFn):
    """sum / count of all (possibly nested) input elements."""

    def create_state(self):
      return [0, 0]

    def update_state(self, state, xs):
      f = flat(xs)
      tot = state[0]
      for v in f:
        tot = tot + v
      return [tot, state[1] + len(f)]

    def merge_states(self, states):
      states = list(states)
      return [sum(s[0] for s in states), sum(s[1] for s in states)]

    def get_result(self, state):
      return (state[0], state[1])
  return SumAgg()


SLICERS = {
    'single': lambda t: t.add_slice('a'),
    'cross': lambda t: t.add_slice(('a', 'b')),
    'two': lambda t: t.add_slice('a').add_slice('b'),
    'within': lambda t: t.add_slice({'a': [0, 1]}, slice_name='a01'),
    'fanout': lambda t: t.add_slice('a', slice_name='bucket', slice_fn=lambda a: ['all', 'low' if a < 1 else 'high']),
    'single-replace-ndarray': lambda t: t.add_slice('a', replace_mask_false_with=0),
    'breplace+single': lambda t: t.add_slice('b', replace_mask_false_with=0).add_slice('a'),
    'single+cross+fanout': lambda t: t.add_slice('a').add_slice(('a', 'b')).add_slice(
        'a', slice_name='bucket', slice_fn=lambda a: ['all', 'low' if a < 1 else 'high']),
}


def expected_groups(kind, rows):
  """Brute-force group-by: {(slice_name tuple, slice_value tuple): [row indices]} from concretised features."""
  g = {}
  def add(name, val, i):
    g.setdefault((name, val), []).append(i)
  for i, r in enumerate(rows):
    a, b = int(r['a']), int(r['b'])
    for part in kind.split('+'):
      if part == 'single':
        add(('a',), (a,), i)
      elif part == 'cross':
        add(('a', 'b'), (a, b), i)
      elif part == 'breplace':
        add(('b',), (b,), i)
      elif part == 'two':
        add(('a',), (a,), i); add(('b',), (b,), i)
      elif part == 'within':
        if a in (0, 1):
          add(('a01',), (a,), i)
      elif part == 'fanout':
        add(('bucket',), ('all',), i); add(('bucket',), ('low' if a < 1 else 'high',), i)
  return g


def norm_key(k):
  """Result key -> ('name' | (name, features, values)) with concretised slice values."""
  from ml_metrics._src.chainables import transform
  if isinstance(k, transform.MetricKey):
    vals = tuple(int(v) if isinstance(v, SV) else v for v in k.slice.values)
    return (k.metrics, tuple(k.slice.features), vals)
  return k


def build_group(kind, comp, stacked):
  """Scenario for row-level slicers."""
  from ml_metrics._src.chainables import transform
  from ml_metrics._src.aggregates import rolling_stats as rs
  n = sum(comp)
  merge = kind.endswith('@merge')        # shard 1 = first batch, shard 2 = the rest; states merged with the runner's merge_states
  kind = kind.removesuffix('@merge')
  replace_names = {'single-replace-ndarray': {('a',)}, 'breplace+single': {('b',)}}.get(kind, set())

  def build(c):
    rows = [{'x': c.real(f'x{i}'), 'a': c.int(f'a{i}', 0, 2), 'b': c.int(f'b{i}', 0, 1)} for i in range(n)]
    batches, k = [], 0
    for bsz in comp:
      part = rows[k:k + bsz]; k += bsz
      if replace_names:     # numpy columns: a replace-style mask must not write into the caller's batch
        batches.append({key: (symx._obj([r[key] for r in part]) if symx.has_sym([r[key] for r in part]) else np.asarray([r[key] for r in part]))
                        for key in ('x', 'a', 'b')})
      else:
        batches.append({key: [r[key] for r in part] for key in ('x', 'a', 'b')})

    def pipeline(with_slices):
      t = transform.TreeTransform.new().aggregate(fn=make_sumagg(), input_keys='x', output_keys='s')
      if stacked:
        t = t.add_aggregate(fn=rs.Mean(), input_keys='x', output_keys='m')
        t = t.add_aggregate(fn=make_sumagg(), input_keys='x', output_keys='u', disable_slicing=True)
      if with_slices:
        t = SLICERS[kind](t)
      if merge and len(batches) >= 2:
        states = []
        for shard in (batches[:1], batches[1:]):
          it = t.make().iterate(shard)
          for _ in it:
            pass
          states.append(it.agg_state)
        runner = t.make()
        return {norm_key(key): v for key, v in runner.get_result(runner.merge_states(states)).items()}
      it = t.make().iterate(batches)
      for _ in it:
        pass
      return {norm_key(key): v for key, v in it.agg_result.items()}
    sliced = pipeline(True)
    plain = pipeline(False)
    xs = [r['x'] for r in rows]
    tot = lambda idx: (sum([xs[i] for i in idx], 0), len(idx))
    out = {'keys': sorted(map(repr, sliced.keys())), 'vals': [], 'want': []}
    want = {'s': tot(range(n))}
    if stacked:
      want['m'] = tot(range(n))[0] / n if n else float('nan')
      want['u'] = tot(range(n))
    names = ['s'] + (['m'] if stacked else [])
    for (name, val), idx in expected_groups(kind.replace('-replace-ndarray', ''), rows).items():
      for metric in names:
        if name in replace_names:
          # replace mode: rows outside the slice count as 0 - but only in batches where the slice value occurs
          bounds, k0 = [], 0
          for bsz in comp:
            bounds.append(range(k0, k0 + bsz)); k0 += bsz
          cnt = sum(len(b) for b in bounds if any(i in b for i in idx))
          want[(metric, name, val)] = (tot(idx)[0], cnt) if metric == 's' else tot(idx)[0] / cnt
        else:
          want[(metric, name, val)] = tot(idx) if metric == 's' else tot(idx)[0] / len(idx)
    out['want_keys'] = sorted(map(repr, want.keys()))
    for key in want:
      if key in sliced:
        got = sliced[key]
        out['vals'].append(tuple(got) if isinstance(got, (list, tuple)) else got)
        out['want'].append(tuple(want[key]) if isinstance(want[key], tuple) else want[key])
    unsliced_keys = [kk for kk in plain if not isinstance(kk, tuple)]
    out['unsliced_with'] = [_t(sliced.get(kk)) for kk in unsliced_keys]
    out['unsliced_without'] = [_t(plain[kk]) for kk in unsliced_keys]
    return out
  return build


def _t(v):
  return tuple(v) if isinstance(v, (list, tuple)) else v


def build_mask(comp, replace):
  """Intra-example masks: every example holds two values; slice_mask_fn selects elements by a per-element flag."""
  from ml_metrics._src.chainables import transform
  n = sum(comp)

  def build(c):
    rows = [{'x': [c.real(f'x{i}_0'), c.real(f'x{i}_1')], 'w': [c.bool(f'w{i}_0'), c.bool(f'w{i}_1')]} for i in range(n)]
    batches, k = [], 0
    for bsz in comp:
      part = rows[k:k + bsz]; k += bsz
      batches.append({'x': [r['x'] for r in part], 'w': [r['w'] for r in part]})

    def mask_fn(ws):
      yield ('on',), ([[bool(w) for w in row] for row in ws],)
      yield ('off',), ([[not bool(w) for w in row] for row in ws],)
    kw = dict(replace_mask_false_with=0) if replace else {}
    t = (transform.TreeTransform.new().aggregate(fn=make_sumagg(), input_keys='x', output_keys='s')
         .add_slice('w', slice_name='flag', slice_mask_fn=mask_fn, **kw))
    it = t.make().iterate(batches)
    for _ in it:
      pass
    res = {norm_key(key): _t(v) for key, v in it.agg_result.items()}
    allx = [(x, bool(w)) for r in rows for x, w in zip(r['x'], r['w'])]
    def tot(pred):
      sel = [x for x, w in allx if pred(w)]
      return (sum(sel, 0), len(allx) if replace else len(sel))
    want = {'s': (sum([x for x, _ in allx], 0), len(allx)),
            ('s', ('flag',), ('on',)): tot(lambda w: w), ('s', ('flag',), ('off',)): tot(lambda w: not w)}
    return {'keys': sorted(map(repr, res)), 'want_keys': sorted(map(repr, want)),
            'vals': [res.get(kk) for kk in want], 'want': [want[kk] for kk in want],
            'unsliced_with': [res.get('s')], 'unsliced_without': [want['s']]}
  return build


def worker(job):
  kind, comp, stacked, tier, seed = job
  mods = _mods()
  if kind.startswith('mask'):
    build = build_mask(comp, kind == 'mask-replace')
  else:
    build = build_group(kind, comp, stacked)

  def scn(c):
    with symx.patched(*mods):
      out = build(c)
    return [('reported key set == keys with at least one member row', z3.BoolVal(out['keys'] == out['want_keys'])),
            ('per-key value == group-by value', symx.eq_claim(out['vals'], out['want'])),
            ('unsliced result unchanged by slicers', symx.eq_claim(out['unsliced_with'], out['unsliced_without']))]
  res = symx.explore(scn, max_paths=6000 if tier == 'quick' else 60000, timeout_s=240 if tier == 'quick' else 3000)
  failed = []
  for claim, values, prefix in res.failed[:3]:
    try:
      out = srun.run_concrete(build, dict(values))
      if claim.startswith('reported key set'):
        bad = out['keys'] != out['want_keys']
        detail = f"keys={out['keys']} want={out['want_keys']}"
      elif claim.startswith('per-key'):
        bad = not symx.concrete_close(out['vals'], out['want']); detail = f"vals={out['vals']} want={out['want']}"
      else:
        bad = not symx.concrete_close(out['unsliced_with'], out['unsliced_without']); detail = f"with={out['unsliced_with']} without={out['unsliced_without']}"
      failed.append({'claim': claim, 'values': values, 'reproduced': bool(bad), 'detail': detail[:600]})
    except Exception as e:  # pylint: disable=broad-exception-caught
      failed.append({'claim': claim, 'values': values, 'reproduced': True, 'detail': f'real code raised {type(e).__name__}: {e}'[:400]})
  return {'job': [kind, list(comp), stacked], 'paths': res.paths, 'cut': res.cut, 'cut_reasons': res.cut_reasons, 'claims': res.claims,
          'discharged': res.discharged, 'failed': failed, 'unknown': res.unknown, 'stats': res.stats, 'witness': res.paths > 0,
          'samples': [{'slicers': kind, 'batch sizes': list(comp), 'stacked aggregates': stacked, 'paths': res.paths, 'claims_proved_unsat': res.discharged}]}


def replay(data):
  """./run.py C02 --replay FILE : re-runs the recorded scenario on the recorded values with real numpy on the current /repo."""
  import ast
  job = ast.literal_eval(data['job']) if isinstance(data['job'], str) else data['job']
  values = ast.literal_eval(data['values']) if isinstance(data['values'], str) else data['values']
  kind, comp, stacked = job
  build = build_mask(tuple(comp), kind == 'mask-replace') if kind.startswith('mask') else build_group(kind, tuple(comp), stacked)
  try:
    out = srun.run_concrete(build, dict(values))
  except Exception as e:  # pylint: disable=broad-exception-caught
    print(f'real code raised {type(e).__name__}: {e}'); print('REPRODUCED'); return 1
  claim = data['claim']
  if claim.startswith('reported key set'):
    bad = out['keys'] != out['want_keys']; print(f"keys={out['keys']}\nwant={out['want_keys']}")
  elif claim.startswith('per-key'):
    bad = not symx.concrete_close(out['vals'], out['want']); print(f"vals={out['vals']}\nwant={out['want']}")
  else:
    bad = not symx.concrete_close(out['unsliced_with'], out['unsliced_without']); print(f"with={out['unsliced_with']}\nwithout={out['unsliced_without']}")
  print('REPRODUCED' if bad else 'NOT-REPRODUCED')
  return 1 if bad else 0


def classify(r, f):
  return f"{r['job'][0]}:{f['claim']}"


def run(tier):
  rep = common.Report('C02', tier, 'other',
                      'Bounded symbolic execution (symx) of the real aggregate/slicing pipeline code against a brute-force group-by written over the same '
                      'symbolic rows: metric inputs are z3 reals, slice features z3 ints (concretised where hashed). Per path z3 proves reported values == '
                      'group-by values, the reported key set is compared exactly, and the unsliced result is proven equal with and without slicers.')
  q = tier == 'quick'
  comps = [(3,), (2, 1), (1, 2), (1, 1, 1)] if q else [(4,), (3, 1), (1, 3), (2, 2), (2, 1, 1), (1, 1, 2), (1, 1, 1, 1), (1,), ()]
  jobs = []
  only = os.environ.get('VF_ONLY')
  for kind in SLICERS:
    for comp in comps:
      for stacked in ((False, True) if kind in ('single', 'cross', 'single+cross+fanout', 'single-replace-ndarray') else (False,)):
        if q and kind == 'single+cross+fanout' and comp not in ((2, 1), (1, 1, 1)):
          continue
        jobs.append((kind, comp, stacked, tier, common.seed()))
  # the same pipelines run as two shards whose aggregation states are merged (what a sharded / distributed run does)
  for kind in ('single', 'cross', 'single+cross+fanout') if q else ('single', 'cross', 'two', 'within', 'fanout', 'single+cross+fanout', 'breplace+single'):
    for comp in comps:
      if len(comp) >= 2 and not (q and kind == 'single+cross+fanout' and comp != (1, 1, 1)):
        jobs.append((kind + '@merge', comp, kind in ('single', 'cross'), tier, common.seed()))
  for comp in ([(2,), (1, 1)] if q else [(2,), (1, 1), (2, 1), (3,)]):
    jobs.append(('mask-filter', comp, False, tier, common.seed()))
    jobs.append(('mask-replace', comp, False, tier, common.seed()))
  jobs = [j for j in jobs if not only or only in j[0]]
  rep.bounds(rows=3 if q else 4, batch_compositions=[list(c) for c in comps], slicer_sets=list(SLICERS) + ['mask-filter', 'mask-replace', '<kind>@merge = two shards merged with merge_states/get_result'],
             features='a in {0,1,2}, b in {0,1}', note='stacked = three aggregates (sum/count, shipped Mean, sum/count with disable_slicing)')
  rep.outside('user aggregate functions with data-dependent control flow', 'threads (C03/C13)', 'floating-point rounding', 'numpy-array batches (lists are used)')
  rep.assume('numpy facade validated in C01/C11', 'slice features are concretised by the solver wherever the code hashes them (dict keys)')
  from ml_metrics._src.chainables import transform, tree_fns, tree
  rep.encoded(transform.TransformRunner.update_state, transform.TransformRunner.get_result, transform.TransformRunner.create_state, transform.TreeTransform.add_slice,
              transform.TreeTransform.add_aggregate, tree_fns.Slicer.new, tree_fns.Slicer.iterate_and_slice, tree_fns.TreeFn._get_inputs, tree_fns.TreeFn._apply_masks,
              tree_fns.TreeAggregateFn.update_state, tree_fns.TreeAggregateFn.get_result, tree.apply_mask)
  results = srun.run_jobs(worker, jobs)
  srun.absorb(rep, results, classify)
  return rep.finish()
