"""temporary driver for checks/c20_seq.py (to be removed)"""
import os
from vf import common
from checks import c20_seq as S

def run(tier):
  rep = common.Report('TMP_C20', tier, 'other', 'tmp driver for c20_seq')
  o = os.environ.get('VF_ONLY'); skip = os.environ.get('C20_SKIP_RAISE') == '1'
  def sel(n):
    if skip and n.startswith('ob_run_released_on_raise'): return False
    return o in n if o else True
  S.run_into(rep, tier, only=sel)
  return rep.finish()
