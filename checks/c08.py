"""C08 - pipeline operators route data exactly as a reference interpreter.

Engine A: CrossHair executes the real TreeTransform.select/apply/assign/filter/batch/sink/make, _check_assign_keys,
TreeFn/Assign/FilterFn/Select/Sink iterate, processed_with_inputs/_TeeIterator and TreeMapView get/set on streams of
records whose integer fields, function constants and filter thresholds are symbolic. The generator enumerates the operator
sequences and key shapes (complete inside the stated catalogue); each shape is compared with a direct reference
interpreter (plain dict/list manipulation, part of the harness).

Shapes are bundled: one contract function covers a list of shapes and a symbolic selector `sel` (an explicit chain of
`sel == i` decisions) picks the shape, so a counterexample names the shape. Shapes that hit a behaviour that is reported
as a suspected library defect but not yet decided (fixed / known finding) live in separate `ob_pending_<tag>_*`
functions that are generated only for the tags listed in ENABLED_PENDING or with VF_C08_PENDING=1 / =tag,tag.
"""
import os

from vf import common, xh

PRELUDE = r'''
from ml_metrics._src.chainables import transform, tree, tree_fns
from ml_metrics._src.utils import iter_utils
_vf_silence(transform, iter_utils, tree_fns)
Key = tree.Key
SELF, SKIP = '<SELF>', '<SKIP>'

# ---------------------------------------------------------------- key specs -> library keys
# key spec: 'name' | SELF | SKIP | ('p', part, ...) nested path (int part = Index) | ('i', n) Index |
#           ('lit', value) Literal | ('d', ((new, key_in_fn_output), ...)) dict-form output key
# keys spec: one key spec | ('T', k, ...) tuple of keys | ('KW', (argname, k), ...) dict/kwargs input keys
def _lk(k, env):
  if k == SELF: return Key.SELF
  if k == SKIP: return Key.SKIP
  if isinstance(k, str): return k
  if k[0] == 'p': return Key.new(*[Key.Index(x) if isinstance(x, int) else x for x in k[1:]])
  if k[0] == 'i': return Key.Index(k[1])
  if k[0] == 'lit': return Key.Literal(env[k[1]])
  if k[0] == 'd': return {n: _lk(o, env) for n, o in k[1]}
  raise AssertionError('bad key spec')

def _lks(ks, env):
  if isinstance(ks, tuple) and ks and ks[0] == 'T': return tuple(_lk(k, env) for k in ks[1:])
  if isinstance(ks, tuple) and ks and ks[0] == 'KW': return {n: _lk(k, env) for n, k in ks[1:]}
  return _lk(ks, env)

# ---------------------------------------------------------------- user functions (not under test)
def _fn(name, env):
  k, th = env['k'], env['th']
  if name == 'boomat':
    calls = []
    def boomat(x):
      calls.append(1)
      if len(calls) > env['kfail']: raise Boom('function failed')
      return x + k
    return boomat
  return {
      'inc': lambda x: x + k,
      'sub': lambda x, y: x - y + k,
      'two': lambda x: (x + k, x - k),
      'three': lambda x: (x + k, x - k, x + 1),
      'duv': lambda x: {'u': x + k, 'v': x - k},
      'duv_and': lambda x: ({'u': x + k, 'v': x - k}, x + 7),
      'rec': lambda r: {'a': r['a'] + k, 'w': r['b']},
      'recsum': lambda r: r['a'] + r['b'] + k,
      'tup': lambda r: r[0] + r[1] + k,
      'ident': lambda x: x,
      'gt': lambda x: x > th,
      'gt2': lambda x, y: x + y > th,
      'gtrec': lambda r: r['a'] > th,
      'gttup': lambda r: r[0] > th,
      'even': lambda x: x % 2 == 0,
      'odd': lambda x: x % 2,                 # truthiness of a non-bool result
  }[name]

class MemSink:
  def __init__(self): self.log = []
  def __repr__(self): return 'MemSink'
  def __ch_deep_realize__(self, memo):
    # TreeFn._maybe_call_fn formats the sink object into its error message; CrossHair deep-realizes every formatted
    # object, which would turn the logged (symbolic) records into enumerated concrete values. The text is not the subject.
    return self
  def write(self, *a, **kw): self.log.append(('w', a, kw))
  def close(self): self.log.append(('c',))

class Boom(ValueError):
  pass

class FailingSink(MemSink):
  def __init__(self, after): self.log = []; self.after = after
  def write(self, *a, **kw):
    if len(self.log) >= self.after: raise Boom('cannot write')
    self.log.append(('w', a, kw))

class _Source:
  """Caller's data source: delivers records[:kfail], then raises (kfail == len(records): no fault)."""
  def __init__(self, records, kfail): self.records = records; self.kfail = kfail
  def __iter__(self):
    for j, r in enumerate(self.records):
      if j >= self.kfail: raise Boom('source failed')
      yield r

def _recsD(vals, shared):
  """dict records; shared: every record points to ONE nested object (aliasing inside the caller's data)."""
  if shared:
    m = {'s': vals[0][2], 'l': [vals[0][0], vals[0][1]]}
    return [{'a': a, 'b': b, 'm': m} for a, b, s in vals]
  return [{'a': a, 'b': b, 'm': {'s': s, 'l': [a, b]}} for a, b, s in vals]

def _recsQ(vals, as_tuple):
  """sequence records (Index keys): tuples or lists [a, {'z': b}] ... kept flat: (a, b)."""
  return [((a, b) if as_tuple else [a, b]) for a, b, s in vals]

# ---------------------------------------------------------------- building the real pipeline
# op: ('select', inp, out|None) ('apply', fn, inp, out) ('assign', fn, inp, out) ('filter', fn, inp)
#     ('batch', n) ('sink', inp)
def _build(pipe, env, sinks):
  t = transform.TreeTransform.new()
  si = 0
  for op in pipe:
    kind = op[0]
    if kind == 'select':
      t = t.select(_lks(op[1], env)) if op[2] is None else t.select(_lks(op[1], env), _lks(op[2], env))
    elif kind == 'apply':
      t = t.apply(_fn(op[1], env), input_keys=_lks(op[2], env), output_keys=_lks(op[3], env))
    elif kind == 'assign':
      t = t.assign(_lks(op[3], env), fn=_fn(op[1], env), input_keys=_lks(op[2], env))
    elif kind == 'filter':
      t = t.filter(_fn(op[1], env), input_keys=_lks(op[2], env))
    elif kind == 'batch':
      t = t.batch(op[1])
    elif kind == 'sink':
      t = t.sink(sinks[si], input_keys=_lks(op[1], env)); si += 1
    else:
      raise AssertionError('bad op')
  return t

def _nsinks(pipe):
  return len([op for op in pipe if op[0] == 'sink'])

def _run(t, data):
  """(outputs, error name | None). The exception object is dropped before returning (as after an `except` block), so
  generators suspended in its traceback are finalised - sinks are inspected only after that."""
  out, err = [], None
  it = t.make().iterate(data)
  try:
    for x in it: out.append(x)
  except Exception as e:
    err = 'Boom' if _root_boom(e) else type(e).__name__
    e = None
  return out, err

def _root_boom(e):
  n = 0
  while e is not None and n < 10:
    if isinstance(e, Boom): return True
    e = e.__cause__ or e.__context__
    n += 1
  return False

# ---------------------------------------------------------------- reference interpreter (plain containers only)
class _Empty:
  pass
EMPTY = _Empty()

def r_get(rec, k):
  if k == SELF: return rec
  if isinstance(k, str): return rec[k]
  if k[0] == 'lit': return k[1]          # value already resolved by r_resolve
  if k[0] == 'i': return rec[k[1]]
  if k[0] == 'p':
    for part in k[1:]: rec = rec[part]
    return rec
  raise AssertionError('bad input key')

def r_inputs(rec, ks):
  if isinstance(ks, tuple) and ks and ks[0] == 'T': return tuple(r_get(rec, k) for k in ks[1:]), {}
  if isinstance(ks, tuple) and ks and ks[0] == 'KW': return (), {n: r_get(rec, k) for n, k in ks[1:]}
  return (r_get(rec, ks),), {}

def _r_set_path(node, parts, v):
  """New container equal to `node` except that the leaf at `parts` is v; shallow copies along the path only."""
  if not parts: return v
  head, rest = parts[0], parts[1:]
  if node is EMPTY:
    if isinstance(head, int):
      assert head == 0
      return [_r_set_path(EMPTY, rest, v)]
    return {head: _r_set_path(EMPTY, rest, v)}
  if isinstance(node, dict):
    new = dict(node)
    new[head] = _r_set_path(node.get(head, EMPTY), rest, v)
    return new
  new = list(node)
  if head == len(new): new.append(EMPTY)
  new[head] = _r_set_path(new[head], rest, v)
  return tuple(new) if isinstance(node, tuple) else new

def _parts(k):
  if isinstance(k, str): return (k,)
  if k[0] == 'i': return (k[1],)
  if k[0] == 'p': return tuple(k[1:])
  raise AssertionError('bad output key')

def r_set(rec, k, v):
  if k == SELF: return v
  if k == SKIP: return rec
  if isinstance(k, tuple) and k[0] == 'd':
    for new, old in k[1]:
      rec = r_set(rec, new, r_get(v, old))
    return rec
  return _r_set_path(rec, _parts(k), v)

def r_outputs(base, ks, result):
  outs = result if type(result) is tuple else (result,)
  keys = ks[1:] if isinstance(ks, tuple) and ks and ks[0] == 'T' else (ks,)
  if len(keys) == 1 and len(outs) > 1:
    return r_set(base, keys[0], outs)
  assert len(keys) == len(outs)
  rec = base
  for k, v in zip(keys, outs):
    rec = r_set(rec, k, v)
  return rec

def _flat_names(ks):
  """The names an output key spec writes (dict-form keys count by their new names)."""
  keys = ks[1:] if isinstance(ks, tuple) and ks and ks[0] == 'T' else (ks,)
  out = []
  for k in keys:
    if isinstance(k, tuple) and k[0] == 'd': out += [n for n, _ in k[1]]
    else: out.append(k)
  return out

def r_resolve(x, env):
  """Replaces ('lit', name) by ('lit', env[name]) everywhere in a spec."""
  if isinstance(x, tuple):
    if len(x) == 2 and x[0] == 'lit': return ('lit', env[x[1]])
    return tuple(r_resolve(y, env) for y in x)
  return x

def r_run(pipe, records, env):
  """Direct evaluation. Returns (stream, [rows seen by each sink], origin) where origin[j] is the index of the input
  record that output j descends from (None after a batch)."""
  stream = [(i, r) for i, r in enumerate(records)]
  sinks = []
  cols = None                      # explicit output keys of the records in `stream`, None = unknown (whole records)
  for op in r_resolve(tuple(pipe), env):
    kind = op[0]
    if kind == 'select':
      out = op[1] if op[2] is None else op[2]
      stream = [(i, r_outputs(EMPTY, out, tuple(r_get(r, k) for k in (op[1][1:] if isinstance(op[1], tuple) and op[1][0] == 'T' else (op[1],)))))
                for i, r in stream]
      cols = None if _flat_names(out) == [SELF] else _flat_names(out)
    elif kind == 'apply':
      f = _fn(op[1], env); new = []
      for i, r in stream:
        a, kw = r_inputs(r, op[2]); new.append((i, r_outputs(EMPTY, op[3], f(*a, **kw))))
      stream = new
      cols = None if _flat_names(op[3]) == [SELF] else _flat_names(op[3])
    elif kind == 'assign':
      f = _fn(op[1], env); new = []
      for i, r in stream:
        a, kw = r_inputs(r, op[2]); new.append((i, r_outputs(r, op[3], f(*a, **kw))))
      stream = new
      cols = None if cols is None else cols + [n for n in _flat_names(op[3]) if n not in cols]
    elif kind == 'filter':
      f = _fn(op[1], env); new = []
      for i, r in stream:
        a, kw = r_inputs(r, op[2])
        if f(*a, **kw): new.append((i, r))
      stream = new
    elif kind == 'sink':
      rows = []
      for i, r in stream:
        a, kw = r_inputs(r, op[1]); rows.append(('w', a, kw))
      sinks.append(rows)
    elif kind == 'batch':
      n = op[1] or 1
      recs = [r for _, r in stream]
      chunks = [recs[j:j + n] for j in range(0, len(recs), n)]
      if cols is None:
        stream = [(None, c) for c in chunks]
      else:
        keys = [c for c in cols if c != SKIP]
        new = []
        for c in chunks:
          b = EMPTY
          for k in keys: b = r_set(b, k, [r_get(r, k) for r in c])
          new.append((None, b))
        stream = new
    else:
      raise AssertionError('bad op')
  return [r for _, r in stream], sinks, [i for i, _ in stream]

# ---------------------------------------------------------------- oracles
def _untouched(inp, out, paths):
  """`out` has exactly the keys of `inp` plus the heads of `paths`; every key outside the heads maps to the IDENTICAL
  object; below a head that is continued by a longer path the same holds recursively."""
  heads = {}
  for p in paths:
    heads.setdefault(p[0], []).append(p[1:])
  if isinstance(inp, dict):
    if not isinstance(out, dict) or set(out.keys()) != set(inp.keys()) | set(heads): return False
    keys = list(inp.keys())
  else:
    if type(out) is not type(inp) or len(out) != max([len(inp)] + [h + 1 for h in heads]): return False
    keys = list(range(len(inp)))
  for key in keys:
    if key not in heads:
      if out[key] is not inp[key]: return False
    elif all(rest for rest in heads[key]):
      if not _untouched(inp[key], out[key], heads[key]): return False
  return True

def _check(pipe, mk, env, identity=False):
  records, snapshot, ref_in = mk(), mk(), mk()
  sinks = [MemSink() for _ in range(_nsinks(pipe))]
  t = _build(pipe, env, sinks)
  out, err = _run(t, records)
  want, want_rows, origin = r_run(pipe, ref_in, env)
  if err is not None or out != want: return False
  if records != snapshot: return False                      # the caller's objects are untouched
  for s, rows in zip(sinks, want_rows):
    if s.log != rows + [('c',)]: return False               # every record once, in order, then closed exactly once
  if identity:
    paths = [_parts(n) for op in pipe if op[0] == 'assign' for n in _flat_names(op[3]) if n != SKIP]
    assert SELF not in [n for op in pipe if op[0] == 'assign' for n in _flat_names(op[3])]
    for o, i in zip(out, origin):
      if not _untouched(records[i], o, paths): return False
  return True

def _pick(sel, n):
  for i in range(n):
    if sel == i: return i
  raise AssertionError('selector out of range')

def _check_build(prefix, ks, expect_reject, env):
  """assign(ks) after `prefix` is refused when the pipeline is built (KeyError/ValueError) iff expect_reject."""
  t = _build(prefix, env, [MemSink() for _ in range(_nsinks(prefix))])
  try:
    t.assign(_lks(ks, env), fn=_fn('ident', env), input_keys=Key.SELF)
    raised = False
  except (KeyError, ValueError):
    raised = True
  return raised == expect_reject

def _check_build_group(cases, env):
  for prefix, ks, expect in cases:
    if not _check_build(prefix, ks, expect, env):
      if not _VF_SYMBOLIC: print('C08 build-time case failed:', (prefix, ks, 'reference rejects' if expect else 'reference accepts'))
      return False
  return True

def _check_fault(pipe, mk, env, kfail, mode):
  """Sinks under a fault after kfail records: every sink saw exactly the records that reached it, once, in order, and
  is closed exactly once - after the caller has handled (dropped) the error."""
  records = mk()
  n = len(records)
  env = dict(env, kfail=kfail)
  ref_pipe = [op if 'boomat' not in op else (op[0], 'inc') + tuple(op[2:]) for op in pipe]
  _, full_rows, _ = r_run(ref_pipe, mk(), env)             # what every sink sees in a run without a fault
  faulty = kfail < (len(full_rows[0]) if mode == 'write' else n)
  if mode == 'write':
    sinks = [FailingSink(kfail)] + [MemSink() for _ in range(_nsinks(pipe) - 1)]
  else:
    sinks = [MemSink() for _ in range(_nsinks(pipe))]
  t = _build(pipe, env, sinks)
  out, err = _run(t, _Source(records, kfail) if mode == 'source' else records)
  if err != ('Boom' if faulty else None): return False
  for s in sinks:
    if s.log.count(('c',)) != 1 or s.log[-1] != ('c',): return False
  # records are pulled one at a time through the whole chain
  if mode == 'source':
    want, rows, _ = r_run(pipe, mk()[:kfail], env)
    return out == want and [s.log[:-1] for s in sinks] == rows
  if mode == 'write':
    # the first sink refuses its (kfail+1)-th record and keeps kfail rows; no other sink sees more than its fault-free rows
    if sinks[0].log[:-1] != full_rows[0][:kfail]: return False
    return all(s.log[:-1] == r[:len(s.log) - 1] for s, r in zip(sinks[1:], full_rows[1:]))
  # a function fails on its (kfail+1)-th call (operators before it are 1:1, so that is record kfail): sinks before it
  # saw that record too, sinks after it did not
  pos = [j for j, op in enumerate(pipe) if 'boomat' in op][0]
  assert not [op for op in pipe[:pos] if op[0] in ('filter', 'batch')]
  _, rows_before, _ = r_run(ref_pipe, mk()[:kfail + 1], env)
  _, rows_after, _ = r_run(ref_pipe, mk()[:kfail], env)
  si = 0
  for j, op in enumerate(pipe):
    if op[0] != 'sink': continue
    if sinks[si].log[:-1] != (rows_before if j < pos else rows_after)[si]: return False
    si += 1
  return True
'''


# ====================================================================================== generator side
SELF, SKIP = '<SELF>', '<SKIP>'
T = lambda *k: ('T',) + k
KW = lambda **k: ('KW',) + tuple(k.items())
P = lambda *p: ('p',) + p
D = lambda **k: ('d', tuple(k.items()))
I = lambda n: ('i', n)
LIT = ('lit', 'k')

# Suspected library defects awaiting a decision (fix in /repo or entry in known_findings.json). A tag listed here (or
# named in VF_C08_PENDING) gets its obligations generated; classify() maps their counterexamples to the tag.
# All seven behaviours below were genuine defects; they are repaired in /repo by `fix:` commits (see known_findings.json,
# 'fixed'), so their obligations are part of the normal run now and report the defect again if it ever returns.
ENABLED_PENDING = ('skip-first-output-key-written-literally', 'sink-kwargs-input-keys-fail', 'sink-adds-SELF-to-output-keys',
                   'select-does-not-reset-output-keys', 'duplicate-key-within-one-assign-accepted', 'skip-counted-as-output-key',
                   'assign-bare-Index0-key-rejected')
PENDING_TAGS = {
    'skip-first-output-key-written-literally':
        'select/apply whose FIRST output key is Key.SKIP: the skipped output is stored under a literal "SKIP" key '
        '(tree._set_by_path builds a default tree from an empty record before looking at SKIP)',
    'sink-kwargs-input-keys-fail':
        'sink(input_keys={...}) (documented: fed to write() as keyword arguments) fails on the first record: '
        '_CallableSink.__call__ accepts positional data only',
    'sink-adds-SELF-to-output-keys':
        'Sink carries output_keys=(SELF,) into TreeTransform.output_keys: an assign after a sink is rejected ("Cannot mix '
        'SELF"), a batch after select+sink batches whole records instead of the selected columns (set-order dependent)',
    'select-does-not-reset-output-keys':
        'TreeTransform.output_keys resets only for type(fn) is TreeFn (apply); after a select the keys of earlier operators '
        'stay tracked: later assign of a dropped key is rejected, later batch reads dropped keys (KeyError at run time)',
    'duplicate-key-within-one-assign-accepted':
        'assign(("c", "c")) / assign(("c", {"c": ...})): duplicates inside one key tuple are deduplicated by a set before the '
        'check, the pipeline is built and the last writer silently wins',
    'assign-bare-Index0-key-rejected':
        'assign(Key.Index(0), ...) raises "Assign should have output_keys": `assign_keys or output_keys` treats the falsy '
        'Index(0) as no key (a tuple (Index(0),) works)',
    'skip-counted-as-output-key':
        'Key.SKIP is tracked like a real output key: a second assign using SKIP is rejected as duplicate, (SELF, SKIP) as '
        '"mix", batch after an operator with a SKIP output key reads a "SKIP" input (KeyError at run time)',
}


def _is(ks, tag):
  return isinstance(ks, tuple) and len(ks) > 0 and ks[0] == tag


def _outkeys(ks):
  return list(ks[1:]) if _is(ks, 'T') else [ks]


def _names(ks):
  out = []
  for k in _outkeys(ks):
    out += [n for n, _ in k[1]] if _is(k, 'd') else [k]
  return out


def _op_out(op):
  if op[0] == 'select': return op[1] if op[2] is None else op[2]
  if op[0] in ('apply', 'assign'): return op[3]
  return None


PRIORITY = ['duplicate-key-within-one-assign-accepted', 'sink-adds-SELF-to-output-keys', 'select-does-not-reset-output-keys',
            'skip-counted-as-output-key']


class Model:
  """Reference model of the explicit output keys known after a prefix (`names`; [] = the caller's records, keys unknown)
  next to a model of what TreeTransform.output_keys tracks, including the suspected defects (`lib`, with the cause of
  every element the reference does not have). Shapes on which the two disagree are kept out of the main obligations and
  go to the pending obligations of the cause."""

  def __init__(self):
    self.names, self.complete = [], True
    self.lib, self.cause = set(), {}

  def reject(self, ks):
    """Reference predicate for assign(ks): duplicate output key, or SELF mixed with other keys."""
    new = [n for n in _names(ks) if n != SKIP]
    allk = set(self.names) | set(new)
    return (len(set(new)) != len(new) or any(n in self.names for n in new) or (SELF in allk and len(allk) > 1))

  def _why(self, extra=()):
    causes = set(extra) | {self.cause[n] for n in self.lib if n in self.cause and n not in self.names}
    return {next(c for c in PRIORITY if c in causes)} if causes else set()

  def step(self, op):
    """Advances over one operator; returns the tags the shape runs into at this operator."""
    tags = set()
    kind, out = op[0], _op_out(op)
    raw = [] if out is None else _names(out)
    names = [n for n in raw if n != SKIP]
    if kind in ('select', 'apply'):
      if _outkeys(out)[0] == SKIP: tags.add('skip-first-output-key-written-literally')
      if kind == 'apply':
        self.lib, self.cause = set(), {}
      for n in self.lib:
        if n not in names and n not in self.cause: self.cause[n] = 'select-does-not-reset-output-keys'
      self.lib |= set(raw)
      for n in names: self.cause.pop(n, None)
      if SKIP in raw: self.cause[SKIP] = 'skip-counted-as-output-key'
      self.names, self.complete = names, True
    elif kind == 'assign':
      if out == ('i', 0): tags.add('assign-bare-Index0-key-rejected')
      ref_rej = self.reject(out)
      allk = self.lib | set(raw)
      lib_rej = bool(self.lib & set(raw)) or (SELF in allk and len(allk) > 1)
      if ref_rej != lib_rej:
        extra = set()
        if len(set(names)) != len(names) and not lib_rej: extra.add('duplicate-key-within-one-assign-accepted')
        if SKIP in raw: extra.add('skip-counted-as-output-key')
        tags |= self._why(extra)
        assert tags, ('unexplained difference', op)
      if ref_rej: tags.add('REJECT')
      if not self.names: self.complete = False
      self.names = self.names + [n for n in names if n not in self.names]
      self.lib |= set(raw)
      if SKIP in raw: self.cause[SKIP] = 'skip-counted-as-output-key'
    elif kind == 'batch':
      ref = set(self.names) or {SELF}
      if (self.lib or {SELF}) != ref:
        tags |= self._why()
        assert tags, ('unexplained difference', op)
      if ref != {SELF} and not self.complete: tags.add('OUTSIDE-batch-after-leading-assign')
      self.names, self.complete = sorted(ref, key=repr), True
      self.lib, self.cause = set(ref), {}
    elif kind == 'sink':
      if _is(op[1], 'KW'): tags.add('sink-kwargs-input-keys-fail')
      if SELF not in self.lib:
        self.lib.add(SELF)
        if SELF not in self.names: self.cause[SELF] = 'sink-adds-SELF-to-output-keys'
    return tags


def shape_tags(pipe):
  m, tags = Model(), set()
  for op in pipe:
    tags |= m.step(op)
  return tags


# ---------------------------------------------------------------- catalogue
IN1 = ['a', P('m', 's'), P('m', 'l', 1), T('a'), KW(x='a'), LIT]
IN2 = [T('a', 'b'), KW(x='a', y=P('m', 's')), T('a', LIT), T(P('m', 's'), 'b'), KW(y='a', x='b')]
OUT1 = ['c', P('m', 't'), P('n', 't'), 'a', SELF, T('c'), P('m', 's'), P('m', 'l', 2)]
OUT2 = [T('c', 'd'), T('c', P('m', 't')), T(P('m', 't'), 'c'), T(SKIP, 'c'), T('c', SKIP), 'c', SELF,
        T(P('m', 't'), P('m', 'u')), T('a', 'b'), T(P('n', 't'), P('n', 'u'))]
OUT3 = [T('c', SKIP, 'd'), T(SKIP, SKIP, 'd'), 'c', T('c', P('m', 't'), P('m', 'l', 2))]
OUTD = [D(p='u', q='v'), D(p='u'), D(a='v', c='u')]
OUTDA = [T(D(p='u', q='v'), 'r'), T(D(p='u'), SKIP), T(D(p='u'), P('m', 't'))]
SELECTS = [('a', None), (T('a', 'b'), None), (T('a', 'b'), T('x', 'y')), (P('m', 's'), None), (P('m', 's'), 'x'),
           ('a', P('n', 't')), (T('a', LIT), T('a', 'c')), (T('a', 'b'), 'x'), (T('a', 'b'), T('y', SKIP)),
           (T('a', 'b'), T(SKIP, 'y')), (T('a', 'b'), T(I(0), I(1))), (SELF, None), (P('m', 'l', 1), 'x'),
           (T('a', SELF), T('x', 'r')), (P('m', 'l', 0), None), (T('a'), None), ('a', SELF), (T('a', 'b'), SELF), ('m', None)]


def singles_dict(full):
  """Single operators on dict records {'a','b','m':{'s','l':[..]}}. full: whole input x output cross product;
  otherwise every output shape with the default input and every input shape with the default output."""
  s = []
  for kind in ('apply', 'assign'):
    fam = [('inc', IN1, OUT1), ('two', IN1, OUT2), ('three', IN1, OUT3), ('duv', IN1, OUTD), ('duv_and', IN1, OUTDA),
           ('sub', IN2, OUT1), ('recsum', [SELF], OUT1), ('rec', [SELF], [SELF])]
    for fn, ins, outs in fam:
      for a, i in enumerate(ins):
        for b, o in enumerate(outs):
          if full or a == 0 or b == 0: s.append([(kind, fn, i, o)])
  for i in IN1: s += [[('filter', 'gt', i)], [('sink', i)]]
  for i in IN2: s += [[('filter', 'gt2', i)], [('sink', i)]]
  s += [[('filter', 'gtrec', SELF)], [('sink', SELF)], [('filter', 'even', 'b')], [('filter', 'odd', 'b')]]
  s += [[('batch', n)] for n in (0, 1, 2, 3, 4)]
  s += [[('select', i, o)] for i, o in SELECTS]
  return s


def singles_seq():
  """Single operators on tuple / list records (Index keys)."""
  i0, i1, i2, i3 = I(0), I(1), I(2), I(3)
  return [[op] for op in [
      ('select', i0, None), ('select', T(i1, i0), T('x', 'y')), ('select', i1, 'x'), ('select', T(i0, i1), None),
      ('select', T(i0, i1), T(i0, P(1, 'z'))),
      ('apply', 'inc', i0, 'z'), ('apply', 'inc', i1, i0), ('apply', 'tup', SELF, SELF), ('apply', 'sub', T(i0, i1), 'z'),
      ('apply', 'two', i0, T(i0, i1)), ('apply', 'sub', KW(x=i1, y=i0), P('z', 0)),
      ('assign', 'inc', i0, i2), ('assign', 'inc', i0, i1), ('assign', 'two', i0, T(i2, i3)), ('assign', 'two', i1, T(i0, i2)),
      ('assign', 'tup', SELF, i2), ('assign', 'three', i0, T(i2, SKIP, i3)), ('assign', 'sub', KW(x=i1, y=i0), i0),
      ('filter', 'gt', i0), ('filter', 'gttup', SELF), ('filter', 'gt2', T(i0, i1)),
      ('sink', i1), ('sink', T(i0, i1)), ('sink', SELF), ('batch', 2)]]


REPR = [
    ('select', T('a', 'b'), None), ('select', T('a', P('m', 's')), T('a', 'x')), ('select', SELF, None), ('select', T('a', 'm'), None),
    ('apply', 'rec', SELF, SELF), ('apply', 'two', 'a', T('a', 'q')), ('apply', 'sub', KW(x='a', y='b'), 'a'), ('apply', 'duv', 'a', D(a='u', q='v')),
    ('assign', 'inc', 'a', 'c'), ('assign', 'two', 'a', T('d', P('m', 't'))), ('assign', 'duv', 'a', D(p='u', q='v')),
    ('assign', 'sub', KW(x='a', y=LIT), 'e'),
    ('filter', 'gt', 'a'), ('filter', 'gtrec', SELF), ('filter', 'gt2', KW(x='a', y='a')),
    ('batch', 2), ('batch', 1),
    ('sink', SELF), ('sink', T('a', 'a')),
]
REPR_QUICK = [op for j, op in enumerate(REPR) if j not in (2, 13, 16)]
REPR_SMALL = [REPR[0], REPR[1], REPR[4], REPR[5], REPR[8], REPR[9], REPR[12], REPR[14], REPR[15], REPR[17]]

# identity / aliasing family: only pass-through operators and assigns, so every output descends from one caller record
ASSIGNS = [('assign', 'inc', 'a', 'c'), ('assign', 'inc', 'a', P('m', 't')), ('assign', 'two', 'a', T('c', P('m', 't'))),
           ('assign', 'two', 'a', T(P('m', 't'), 'c')), ('assign', 'two', 'a', T(P('m', 't'), P('m', 'u'))),
           ('assign', 'three', 'a', T('c', P('m', 't'), P('m', 'l', 2))), ('assign', 'duv', 'a', D(p='u', q='v')),
           ('assign', 'duv_and', 'a', T(D(p='u'), P('m', 't'))), ('assign', 'inc', 'a', 'a'), ('assign', 'inc', P('m', 's'), P('m', 's')),
           ('assign', 'two', 'a', T(SKIP, P('m', 't'))), ('assign', 'inc', 'a', P('n', 't')), ('assign', 'two', 'b', T('c', P('m', 'l', 0)))]
PASS = [('filter', 'gt', 'a'), ('sink', SELF), ('sink', P('m', 's'))]
ASSIGNS2 = [('assign', 'inc', 'b', 'e'), ('assign', 'two', 'b', T('f', P('m', 'w'))), ('assign', 'inc', 'b', P('m', 'l', 2))]


def identity_shapes(depth):
  s = [[a] for a in ASSIGNS]
  if depth >= 2:
    s += [[p, a] for p in PASS for a in ASSIGNS[:6]] + [[a, p] for p in PASS for a in ASSIGNS[:6]]
    s += [[a, b] for a in ASSIGNS[:8] for b in ASSIGNS2]
  if depth >= 3:
    s += [[a, p, b] for a in ASSIGNS[:6] for p in PASS[:2] for b in ASSIGNS2]
    s += [[p, a, b] for a in ASSIGNS[:6] for p in PASS[:2] for b in ASSIGNS2]
  return s


# build-time acceptance / rejection of assign key sets
PREFIXES = [
    [], [('select', 'a', None)], [('select', T('a', 'b'), T('x', 'y'))], [('select', SELF, None)],
    [('apply', 'two', 'a', T('p', P('m', 't')))], [('apply', 'duv', 'a', D(c='u', q='v'))], [('apply', 'rec', SELF, SELF)],
    [('assign', 'inc', 'a', 'c')], [('assign', 'two', 'a', T('c', P('m', 't')))], [('assign', 'duv', 'a', D(p='u', q='v'))],
    [('assign', 'inc', 'a', SELF)], [('filter', 'gt', 'a')], [('select', 'a', None), ('filter', 'gt', 'a')],
    [('assign', 'inc', 'a', 'c'), ('filter', 'gt', 'a')], [('batch', 2)], [('select', T('a', 'b'), None), ('batch', 2)],
    [('select', T('a', 'b'), T('c', SKIP))], [('assign', 'two', 'a', T(SKIP, 'x'))],
    [('assign', 'inc', 'a', 'c'), ('apply', 'inc', 'a', 'x')], [('select', 'a', None), ('sink', 'a')],
    [('select', T('a', 'b'), None), ('apply', 'rec', SELF, SELF)], [('sink', SELF)], [('assign', 'inc', 'a', 'c'), ('sink', SELF)],
    [('select', T('a', 'b'), None), ('select', 'a', None)], [('assign', 'inc', 'a', 'c'), ('select', 'a', None)],
    [('apply', 'two', 'a', T('p', 'c')), ('select', 'p', None)],
]
ATOMS = ['a', 'c', 'x', 'p', P('m', 't'), SELF, SKIP, D(p='u'), D(c='u', q='v')]


def keysets(maxlen):
  import itertools
  out = list(ATOMS) + [T(a) for a in ATOMS[:2]]
  for n in range(2, maxlen + 1):
    out += [T(*c) for c in itertools.product(ATOMS, repeat=n)]
  return out


# ---------------------------------------------------------------- harness emission
def _ref_env():
  """The reference interpreter of the PRELUDE, loaded into the generator (to drop shapes that are not well-formed:
  a key that does not exist in the records reaching an operator, arity mismatches, ...)."""
  g = {}
  exec(compile(xh.HEADER + PRELUDE, 'c08_prelude', 'exec'), g)  # pylint: disable=exec-used
  return g


_SAMPLE = {'D': lambda g, n: g['_recsD']([(3 * i + 1, 3 * i + 2, 3 * i + 3) for i in range(n)], False),
           'S': lambda g, n: g['_recsD']([(3 * i + 1, 3 * i + 2, 3 * i + 3) for i in range(n)], True),
           'T': lambda g, n: g['_recsQ']([(3 * i + 1, 3 * i + 2, 0) for i in range(n)], True),
           'L': lambda g, n: g['_recsQ']([(3 * i + 1, 3 * i + 2, 0) for i in range(n)], False)}


def well_formed(g, pipe, kind, n):
  try:
    g['r_run'](pipe, _SAMPLE[kind](g, n), {'k': 10, 'th': 4})
    return True
  except (KeyError, IndexError, TypeError, AssertionError, AttributeError, ValueError):
    return False


def _weight(pipe, n):
  w = 1
  for op in pipe:
    if op[0] == 'filter': w *= 2 ** n
  return w + len(pipe)


def _chunks(shapes, n, cap):
  out, cur, w = [], [], 0
  for s in shapes:
    ws = _weight(s, n)
    if cur and w + ws > cap:
      out.append(cur); cur, w = [], 0
    cur.append(s); w += ws
  if cur: out.append(cur)
  return out


class Emitter:

  def __init__(self):
    self.src = [PRELUDE]
    self.bundles = {}      # function name -> list of shapes (for classify / evidence)
    self.counts = {}

  def _params(self, n):
    names = [f'{c}{i}' for i in range(n) for c in 'abs']
    return ', '.join(f'{x}: int' for x in names), '[' + ', '.join(f'(a{i}, b{i}, s{i})' for i in range(n)) + ']'

  def _mk(self, kind, vals):
    return {'D': f'_recsD({vals}, False)', 'S': f'_recsD({vals}, True)', 'T': f'_recsQ({vals}, True)', 'L': f'_recsQ({vals}, False)'}[kind]

  def route(self, prefix, shapes, kind, n, identity, cap):
    self.counts[prefix] = self.counts.get(prefix, 0) + len(shapes)
    params, vals = self._params(n)
    for j, chunk in enumerate(_chunks(shapes, n, cap)):
      name = f'ob_{prefix}_{kind}{n}_{j:03d}'
      self.bundles[name] = chunk
      self.src.append(f'SH_{name} = {chunk!r}\n')
      self.src.append(xh.fn(name, f'sel: int, {params}, k: int, th: int', f'0 <= sel < {len(chunk)}', f"""
        i = _pick(sel, {len(chunk)})
        return _check(SH_{name}[i], lambda: {self._mk(kind, vals)}, {{'k': k, 'th': th}}, {identity})"""))

  def build(self, prefix, cases, cap, group=8):
    """Key sets carry no symbolic data: one path checks a group of cases, the selector picks the group."""
    self.counts[prefix] = self.counts.get(prefix, 0) + len(cases)
    groups = [cases[j:j + group] for j in range(0, len(cases), group)]
    for j in range(0, len(groups), cap):
      chunk = groups[j:j + cap]
      name = f'ob_{prefix}_{j // cap:03d}'
      self.bundles[name] = chunk
      self.src.append(f'SH_{name} = {chunk!r}\n')
      self.src.append(xh.fn(name, 'sel: int, k: int', f'0 <= sel < {len(chunk)}', f"""
        i = _pick(sel, {len(chunk)})
        return _check_build_group(SH_{name}[i], {{'k': k, 'th': 0}})"""))

  def fault(self, prefix, shapes, mode, n):
    self.counts[prefix] = self.counts.get(prefix, 0) + len(shapes)
    params, vals = self._params(n)
    name = f'ob_{prefix}_{mode}_D{n}'
    self.bundles[name] = shapes
    self.src.append(f'SH_{name} = {shapes!r}\n')
    self.src.append(xh.fn(name, f'sel: int, kfail: int, {params}, k: int, th: int',
                          f'0 <= sel < {len(shapes)} and 0 <= kfail <= {n}', f"""
        i = _pick(sel, {len(shapes)})
        return _check_fault(SH_{name}[i], lambda: {self._mk('D', vals)}, {{'k': k, 'th': th}}, _pick(kfail, {n + 1}), {mode!r})"""))

  def raw(self, text):
    self.src.append(text)

  def source(self):
    return '\n'.join(self.src)


FAULT_SOURCE = [[('sink', SELF)], [('sink', T('a', P('m', 's')))], [('filter', 'gt', 'a'), ('sink', SELF)], [('sink', SELF), ('filter', 'gt', 'a')],
                [('assign', 'inc', 'a', 'c'), ('sink', T('a', 'c'))], [('sink', 'a'), ('apply', 'inc', 'a', 'c')],
                [('sink', SELF), ('sink', 'b')], [('select', T('a', 'b'), None), ('sink', 'b')], [('sink', 'b'), ('select', T('a', 'b'), None)],
                [('sink', SELF), ('apply', 'rec', SELF, SELF), ('sink', 'w')]]
FAULT_DOWN = [[('sink', SELF), ('apply', 'boomat', 'a', SELF)], [('assign', 'inc', 'a', 'c'), ('sink', 'c'), ('apply', 'boomat', 'c', 'z')],
              [('sink', SELF), ('filter', 'boomat', 'a')], [('sink', SELF), ('sink', 'b'), ('apply', 'boomat', 'a', 'z')],
              [('select', T('a', 'b'), None), ('sink', 'a'), ('apply', 'boomat', 'b', 'z')]]
FAULT_UP = [[('apply', 'boomat', 'a', 'z'), ('sink', 'z')], [('assign', 'boomat', 'a', 'c'), ('sink', SELF)],
            [('filter', 'boomat', 'a'), ('sink', SELF)], [('sink', SELF), ('apply', 'boomat', 'a', 'c'), ('sink', 'c')]]
FAULT_WRITE = [[('sink', SELF)], [('sink', 'a'), ('apply', 'inc', 'a', 'c'), ('sink', 'c')], [('filter', 'gt', 'a'), ('sink', 'a')],
               [('assign', 'inc', 'a', 'c'), ('sink', T('a', 'c'))]]


def gen(p, pending):
  g = _ref_env()
  E = Emitter()
  n, cap = p['n'], p['cap']
  skipped = {'not-well-formed': 0, 'rejected-by-reference-predicate': 0, 'OUTSIDE-batch-after-leading-assign': 0}
  pend = {t: [] for t in PENDING_TAGS}

  def sort_in(shapes, kind, nn):
    keep = []
    for s in shapes:
      tags = shape_tags(s)
      if 'REJECT' in tags: skipped['rejected-by-reference-predicate'] += 1; continue
      if not well_formed(g, s, kind, nn): skipped['not-well-formed'] += 1; continue
      if 'OUTSIDE-batch-after-leading-assign' in tags: skipped['OUTSIDE-batch-after-leading-assign'] += 1; continue
      if tags:
        for t in tags: pend[t].append((s, kind, nn))
        continue
      keep.append(s)
    return keep

  import itertools
  # 1. single operators, every key shape
  E.route('single', sort_in(singles_dict(p['full_cross']), 'D', n), 'D', n, False, cap)
  for kind in ('T', 'L'):
    E.route('single', sort_in(singles_seq(), kind, n), kind, n, False, cap)
  # 2. operator sequences
  for depth, ops, nn in p['seqs']:
    shapes = sort_in([list(c) for c in itertools.product(ops, repeat=depth)], 'D', nn)
    E.route(f'seq{depth}', shapes, 'D', nn, False, cap)
  # 3. assign adds exactly the named keys, other keys identical objects, caller's records untouched (also shared nested objects)
  ident = sort_in(identity_shapes(p['identity_depth']), 'D', p['identity_n'])
  E.route('ident', ident, 'D', p['identity_n'], True, cap)
  E.route('ident', ident, 'S', p['identity_n'], True, cap)
  seq_ident = [s for s in singles_seq() if s[0][0] == 'assign']
  E.route('ident', sort_in(seq_ident, 'T', 2), 'T', 2, True, cap)
  E.route('ident', sort_in(seq_ident, 'L', 2), 'L', 2, True, cap)
  # 4. build-time rejection iff the reference predicate says so
  cases, pend_cases = [], {t: [] for t in PENDING_TAGS}
  for prefix in PREFIXES[::p['prefix_stride']]:
    for ks in keysets(p['keyset_len']):
      m = Model()
      for op in prefix:
        assert 'REJECT' not in m.step(op), prefix
      tags = m.step(('assign', 'ident', SELF, ks))        # tags raised at the assign itself: REJECT and/or a cause of disagreement
      case = (prefix, ks, 'REJECT' in tags)
      tags = tags - {'REJECT'}
      if tags:
        for t in tags: pend_cases[t].append(case)
      else:
        cases.append(case)
  E.build('build', cases, p['build_cap'])
  # 5. sinks under faults
  for s in FAULT_SOURCE + FAULT_DOWN + FAULT_UP + FAULT_WRITE:
    assert not shape_tags(s) and well_formed(g, [op if 'boomat' not in op else (op[0], 'inc') + tuple(op[2:]) for op in s], 'D', n), s
  E.fault('sinkfault', FAULT_SOURCE, 'source', n)
  E.fault('sinkfault', FAULT_DOWN, 'down', n)
  E.fault('sinkfault', FAULT_UP, 'up', n)
  E.fault('sinkfault', FAULT_WRITE, 'write', n)
  # 6. pending obligations (reference behaviour asserted on the shapes that hit a suspected defect)
  for t in PENDING_TAGS:
    if t not in pending: continue
    tid = t.replace('-', '_')
    by = {}
    for s, kind, nn in pend[t]: by.setdefault((kind, nn), []).append(s)
    for (kind, nn), shapes in sorted(by.items()):
      uniq = [s for j, s in enumerate(shapes) if s not in shapes[:j]][:p['pending_cap']]
      E.route(f'pending_{tid}', uniq, kind, nn, False, cap)
    if pend_cases[t]:
      E.build(f'pending_{tid}_build', pend_cases[t][:p['pending_cap'] * 4], p['build_cap'], group=1)
  # 7. vacuity witnesses
  params, vals = E._params(3)
  E.raw(xh.fn('wit_filter_drops', f'{params}, k: int, th: int', 'True', f"""
        recs = _recsD({vals}, False)
        out, err = _run(_build([('filter', 'gt', 'a')], {{'k': k, 'th': th}}, []), recs)
        return not (err is None and len(out) == 1 and out[0] is recs[1])"""))
  E.raw(xh.fn('wit_assign_copies_path', f'{params}, k: int, th: int', 'True', f"""
        recs = _recsD({vals}, True)
        out, err = _run(_build([('assign', 'two', 'a', ('T', 'c', ('p', 'm', 't')))], {{'k': k, 'th': th}}, []), recs)
        return not (err is None and len(out) == 3 and out[0]['m'] is not recs[0]['m'] and out[0]['m']['t'] == a0 - k
                    and out[2]['c'] == a2 + k and out[0]['m']['l'] is recs[0]['m']['l'] and 't' not in recs[0]['m'])"""))
  E.raw(xh.fn('wit_batch_columns', f'{params}, k: int, th: int', 'True', f"""
        recs = _recsD({vals}, False)
        out, err = _run(_build([('select', ('T', 'a', 'b'), None), ('filter', 'gt', 'a'), ('batch', 2)], {{'k': k, 'th': th}}, []), recs)
        return not (err is None and len(out) == 2 and out[1] == {{'a': [a2], 'b': [b2]}})"""))
  E.raw(xh.fn('wit_build_rejects', 'sel: int, k: int', 'sel == 0', """
        return not (_check_build([('assign', 'inc', 'a', 'c')], ('T', 'x', 'c'), True, {'k': k, 'th': 0})
                    and _check_build([('assign', 'inc', 'a', 'c')], ('T', 'x', 'y'), False, {'k': k, 'th': 0})
                    and _check_build([], ('T', '<SELF>', 'y'), True, {'k': k, 'th': 0}))"""))
  E.raw(xh.fn('wit_sink_fault', f'kfail: int, {params}, k: int, th: int', '0 <= kfail <= 3', f"""
        sink = MemSink()
        recs = _recsD({vals}, False)
        out, err = _run(_build([('sink', 'a')], {{'k': k, 'th': th}}, [sink]), _Source(recs, _pick(kfail, 4)))
        return not (err == 'Boom' and sink.log == [('w', (a0,), {{}}), ('w', (a1,), {{}}), ('c',)])"""))
  E.skipped, E.pend, E.pend_cases = skipped, pend, pend_cases
  return E


_BUNDLES = {}


def classify(name, call):
  """Signature of a reproduced counterexample: the pending tag, else the obligation plus the shape the selector picked."""
  import re
  if name.startswith('ob_pending_'):
    for t in PENDING_TAGS:
      if name.startswith('ob_pending_' + t.replace('-', '_')): return t
  m = re.match(r'\w+\((?:sel=)?(-?\d+)', call or '')
  shapes = _BUNDLES.get(name)
  if m and shapes and 0 <= int(m.group(1)) < len(shapes):
    return f'{name}:{shapes[int(m.group(1))]!r}'
  return name


def run(tier):
  rep = common.Report('C08', tier, 'other',
                      'Bounded symbolic execution (CrossHair/z3) of the real pipeline builder and runner against a direct reference '
                      'interpreter: operator sequences and key shapes are enumerated completely inside the stated catalogue, record field '
                      'values, function constants and filter thresholds are symbolic ints; "discharged" = "Confirmed over all paths" for a '
                      'bundle of shapes (a symbolic selector picks the shape through explicit decisions); counterexamples are replayed concretely.')
  from ml_metrics._src.chainables import transform, tree, tree_fns
  from ml_metrics._src.utils import iter_utils
  TT = transform.TreeTransform
  rep.encoded(TT.select, TT.apply, TT.assign, TT.filter, TT.batch, TT.sink, TT.make, TT._check_assign_keys, TT.output_keys, TT._maybe_new_transform,
              tree_fns.TreeFn.__post_init__, tree_fns.TreeFn._get_inputs, tree_fns.TreeFn._maybe_call_fn, tree_fns.TreeFn._normalize_outputs,
              tree_fns.TreeFn._get_outputs, tree_fns.TreeFn._iterate, tree_fns.TreeFn.iterate, tree_fns.Assign.iterate, tree_fns.Assign.__post_init__,
              tree_fns.FilterFn.iterate, tree_fns.Select.__post_init__, tree_fns.Sink.iterate, tree_fns.Sink.__post_init__,
              iter_utils.processed_with_inputs, iter_utils._TeeIterator.__next__, iter_utils._TeeIterator.tee,
              tree.TreeMapView.__getitem__, tree.TreeMapView._set_by_path, tree.TreeMapView.set, tree._default_tree, tree.normalize_keys,
              transform._RunnerIterator.__init__, transform.ChainedRunner.iterate)
  if tier == 'quick':
    p = dict(n=3, cap=50, full_cross=False, seqs=[(2, REPR_QUICK, 2)], identity_depth=2, identity_n=2, keyset_len=2, prefix_stride=2, build_cap=30, pending_cap=40)
    timeout = 150
  else:
    p = dict(n=3, cap=150, full_cross=True, seqs=[(2, REPR, 3), (3, REPR_SMALL, 3)], identity_depth=3, identity_n=3, keyset_len=3, prefix_stride=1, build_cap=200,
             pending_cap=200)
    timeout = 1200
  env = os.environ.get('VF_C08_PENDING', '')
  pending = set(PENDING_TAGS) if env == '1' else (set(ENABLED_PENDING) | {t for t in env.split(',') if t in PENDING_TAGS})
  E = gen(p, pending)
  rep.bounds(records_per_stream=p['n'], operator_sequences=[f'length {d}: all sequences over {len(ops)} representative operators, {nn} records' for d, ops, nn in p['seqs']],
             single_operator_catalogue='apply/assign: 6 one-argument + 5 two-argument + SELF input shapes x 8/10/4/3/3 output shapes by function arity '
                                       + ('(full cross product)' if p['full_cross'] else '(every output shape with the default input, every input shape with the default output)')
                                       + '; 19 select shapes; 12 filter and 12 sink input shapes; batch sizes 0..4; 25 Index-key operators on tuple and on list records',
             key_shapes='single key, tuple of keys, nested Key path (also through a list index), Index, dict/kwargs input keys, dict-form output keys, SELF, SKIP, Literal',
             identity_family=f'assign/filter/sink sequences up to length {p["identity_depth"]} on {p["identity_n"]} records, separate and shared nested objects',
             build_time=f'{len(PREFIXES[::p["prefix_stride"]])} prefixes x every assign key tuple of length <= {p["keyset_len"]} over {len(ATOMS)} key atoms',
             fault_positions=f'upstream / downstream / own-write failure after k = 0..{p["n"]} records',
             shapes=E.counts, skipped_by_generator=E.skipped, per_condition_timeout_s=timeout,
             values='all record fields, the constant k used by the functions and the filter threshold are unbounded symbolic ints')
  rep.outside('batch() directly after a leading assign (no select/apply fixed the record keys before): TreeTransform.batch batches only the keys assign '
              'added and drops the rest of the record; no reference semantics is documented for that case',
              'fn_batch_size/batch_size re-batching inside apply/assign (C19), error skipping (C12), aggregates, threads, chained named transforms',
              'numpy/pandas records (plain dict/list/tuple trees only)',
              'arity errors of user functions and input keys missing from the record (run-time data errors, not key-combination errors)',
              *[f'PENDING decision, obligations generated but not run: {t}: {d}' for t, d in PENDING_TAGS.items() if t not in pending])
  rep.assume('absl logging and time.time in transform.py/iter_utils.py/tree_fns.py replaced by no-ops in symbolic runs',
             'the harness sink (MemSink) tells CrossHair not to deep-realize it when TreeFn._maybe_call_fn formats the sink object into an error '
             'message (__ch_deep_realize__ returns self); only the message text is affected',
             'user functions are pure integer lambdas of the harness; the reference interpreter calls the same lambdas',
             'CrossHair/z3 sound for int/bool/dict/list/tuple/generator semantics; object identity (`is`) of containers and of symbolic int proxies is the interpreter\'s')
  only = os.environ.get('VF_ONLY')
  global _BUNDLES
  _BUNDLES = E.bundles
  xh.run_module(rep, E.source(), 'c08_h', timeout, classify=classify, only=(lambda n: only in n) if only else None)
  return rep.finish()
