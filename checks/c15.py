"""C15 - the prefetching generator protocol delivers the generator faithfully.

Engine B (pybmc): PrefetchedCourierServer._next_batch / _stop_prefetch (courier_server.py) over the IteratorQueue
encoding of C04, the prefetch thread (IteratorQueue.enqueue_from_iterator) and a client thread that mirrors the marker
interpretation of courier_utils.async_iterate, all compiled from the current source. Symbolic: interleaving of the
prefetch thread with request handling, failure position of the generator, point of a shutdown/stop request;
enumerated: prefetch size, requested batch size, generator length.
"""
import os

from vf import common, srun
from vf.bmc_check import build, worker, absorb, replay  # noqa: F401


def scenarios(tier):
  S = []
  def add(name, **kw):
    kw.update(name=name, kind='prefetch', pred='c15')
    S.append(kw)
  add('1item-prefetch1-batch2', items=1, prefetch=1, batch=2, depths=(40, 50, 60, 70))
  add('1item-prefetch1-batch1', items=1, prefetch=1, batch=1, depths=(40, 50, 60, 70))
  add('fail-2items-prefetch2-batch2', items=2, prefetch=2, batch=2, fail=(0, 255), depths=(50, 60, 70, 80, 90))
  add('fail-1item-prefetch1-batch1', items=1, prefetch=1, batch=1, fail=(0, 255), depths=(40, 50, 60, 70))
  if tier == 'quick':
    # three threads, depth-bounded (the thorough tier exhausts it): a stop request racing with a request in flight
    add('shutdown-2items-prefetch1-batch2-hunt', items=2, prefetch=1, batch=2, stopper='stop', hunt=True, depths=(20, 30, 40))
  if tier == 'thorough':
    add('fail-2items-prefetch1-batch1', items=2, prefetch=1, batch=1, fail=(0, 255), depths=(70, 80, 90, 100))
    add('2items-prefetch1-batch1', items=2, prefetch=1, batch=1, depths=(70, 80, 90, 100))
    add('2items-prefetch2-batch2', items=2, prefetch=2, batch=2, depths=(70, 80, 90, 100))
    add('3items-prefetch2-batch2', items=3, prefetch=2, batch=2, depths=(70, 80, 90, 100, 110, 120))
    add('2items-prefetch1-batch3', items=2, prefetch=1, batch=3, depths=(60, 70, 80, 90, 100))
    add('fail-3items-prefetch2-batch3', items=3, prefetch=2, batch=3, fail=(0, 255), depths=(70, 80, 90, 100, 110, 120))
    add('shutdown-2items-prefetch1-batch2', items=2, prefetch=1, batch=2, stopper='stop', depths=(60, 70, 80, 90, 100))
    add('fatal-stop-1item-prefetch1-batch2', items=1, prefetch=1, batch=2, stopper='fatal', depths=(50, 60, 70, 80, 90))
  return S


def run(tier):
  rep = common.Report('C15', tier, 'model_checking',
                      'Bounded model checking of the real prefetching-server code (_next_batch, _stop_prefetch over the IteratorQueue encoding) with the prefetch thread, the '
                      'request handler and (thorough) a shutdown thread; the generator failure position is symbolic. z3 decides: no blocked request (deadlock), and the final-state '
                      'predicate on the concatenated batches (in-order, exactly once, one end marker with the return value; a failure arrives after every element produced before it).')
  sc = scenarios(tier)
  only = os.environ.get('VF_ONLY')
  jobs = [(s, tier) for s in sc if not only or only in s['name']]
  rep.bounds(scenarios=sc, note='items = generator length, prefetch = queue capacity, batch = requested batch size, FAIL = failing position (255 never)')
  rep.outside('re-initialisation with a second generator (the queue object is replaced; one life-cycle is modelled)', 'pickling of the batch (identity in the model, real pickle in the replay)',
              'the courier transport', 'generators longer than 3 elements')
  rep.assume('one request handler at a time (the client loop is sequential)', 'Condition FIFO order; queue operations atomic')
  import sys, types
  if 'courier' not in sys.modules or not hasattr(sys.modules['courier'], 'Server'):
    fake = types.ModuleType('courier'); fake.Server = object; fake.Client = object
    sys.modules['courier'] = fake
  from ml_metrics._src.chainables import courier_server as cs
  from ml_metrics._src.utils import iter_utils as iu
  rep.encoded(cs.PrefetchedCourierServer._next_batch, cs.PrefetchedCourierServer._stop_prefetch, iu.IteratorQueue.get_batch, iu.IteratorQueue.get_nowait,
              iu.IteratorQueue.enqueue_from_iterator, iu.IteratorQueue.put, iu.IteratorQueue.maybe_stop, iu.IteratorQueue.__bool__)
  results = srun.run_jobs(worker, jobs, nproc=min(len(jobs), common.NCPU))
  absorb(rep, results, 'C15')
  return rep.finish()
