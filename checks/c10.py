"""C10 - checkpoint and resume continue exactly where iteration stopped.

Engine A: CrossHair executes the real SequenceIterator/DataIterator/MultiplexIterator/
_RunnerIterator/_ChainedRunnerIterator state & from_state with symbolic source length,
shard configuration and cut positions (crash points). One, two and three successive
checkpoints; restore of a fresh iterator and of the running one; the original keeps
running after the checkpoint (a captured state must be a snapshot).
"""
import os

from vf import common, xh

PRELUDE = '''
from ml_metrics._src.chainables import io
from ml_metrics._src.chainables import transform
from ml_metrics._src.aggregates import base as agg_base
from ml_metrics._src.utils import iter_utils
_vf_silence(transform, iter_utils, io)
from ml_metrics._src import types as _types
def _is_recoverable(obj):
  # same meaning as the original `obj_has_method(obj, 'from_state') and hasattr(obj, 'state')`; CrossHair's
  # hasattr() evaluates the `state` property outside tracing and crashes on symbolic arithmetic.
  if not _types.obj_has_method(obj, 'from_state'): return False
  try:
    obj.state
    return True
  except AttributeError:
    return False
import copy as _copy
class _CopyShim:
  # deepcopy that shares (immutable, hashable) dict keys instead of re-hashing copies of them: CrossHair models
  # hash() of str-bearing keys symbolically and the C-level tuple hash rejects that. Values are deep-copied for real.
  copy = staticmethod(_copy.copy)
  @staticmethod
  def deepcopy(x, memo=None):
    if type(x) is dict: return {k: _CopyShim.deepcopy(v) for k, v in x.items()}
    if type(x) is list: return [_CopyShim.deepcopy(v) for v in x]
    if type(x) in (io.ShardConfig, transform._IteratorState):
      import dataclasses as _dc
      return _dc.replace(x, **{f.name: _CopyShim.deepcopy(getattr(x, f.name)) for f in _dc.fields(x) if f.init})
    return _copy.deepcopy(x)
if _VF_SYMBOLIC:
  _types.is_recoverable = _is_recoverable
  transform.copy = _CopyShim

class Seq:
  def __init__(self, n): self.n = n
  def __len__(self): return self.n
  def __getitem__(self, i):
    if isinstance(i, slice):
      start, stop, step = i.indices(self.n)
      return list(range(start, stop, step))
    if i < 0: i += self.n
    if not 0 <= i < self.n: raise IndexError('seq index out of range')
    return i

class SumAgg(agg_base.AggregateFn):
  """In-place integer aggregate (like every MergeableMetric.as_agg_fn()): state = [sum, count]."""
  def create_state(self): return [0, 0]
  def update_state(self, state, x):
    state[0] += x; state[1] += 1
    return state
  def merge_states(self, states):
    states = list(states); r = states[0]
    for s in states[1:]:
      r[0] += s[0]; r[1] += s[1]
    return r
  def get_result(self, state): return (state[0], state[1])

if _VF_SYMBOLIC:
  from crosshair.tracers import NoTracing as _untraced
else:
  import contextlib
  _untraced = contextlib.nullcontext

class SumAggL(agg_base.AggregateFn):
  """Like SumAgg for batches (lists) of values: state = [sum, count]."""
  def create_state(self): return [0, 0]
  def update_state(self, state, xs):
    for x in xs:
      state[0] += x; state[1] += 1
    return state
  def merge_states(self, states):
    states = list(states); r = states[0]
    for s in states[1:]:
      r[0] += s[0]; r[1] += s[1]
    return r
  def get_result(self, state): return (state[0], state[1])

def _agg_key(res):
  """agg_result -> sorted plain structure (slice keys are MetricKey objects)."""
  out = []
  for k, v in dict(res).items():
    name = k if isinstance(k, str) else (k.metrics, tuple(k.slice.features), tuple(k.slice.values))
    out.append((repr(name), tuple(v)))
  return sorted(out)

def _take(it, c):
  out = []
  for _ in range(c):
    try: out.append(next(it))
    except StopIteration: break
  return out

def _conc(x, hi):
  """Make a small symbolic int concrete through solver branches (one path per value): the chained-pipeline obligations are
  too slow when the cut positions stay symbolic inside the library (every comparison on start_index forks)."""
  for v in range(hi + 1):
    if x == v: return v
  return hi

def _drain(it):
  """Remaining elements and the value the iterator returns at its end (the AggregateResult of a pipeline)."""
  out = []
  while True:
    try: out.append(next(it))
    except StopIteration as e: return out, e.value

def _ret_key(v):
  # no repr()/sorting of keys: formatting symbolic values makes CrossHair enumerate them
  return None if v is None else (v.agg_result, [list(s) for s in (v.agg_state or {}).values()])

def _resume_chain(it, cuts, fresh):
  """Deliver cuts[0] elements, checkpoint, restore, deliver cuts[1], checkpoint, restore ... then drain.
  fresh(state) builds a brand-new iterator from a state (None: use the running iterator's from_state)."""
  got = []
  for c in cuts:
    got += _take(it, c)
    st = it.state
    it = fresh(st) if fresh is not None else it.from_state(st)
  got += list(it)
  return got, it
'''


def gen(nmax, kmax, cmax, nested, three_cuts, pipes, heavy):
  F = xh.fn
  s = [PRELUDE]
  A = s.append
  nk = f'0 <= n <= {nmax} and 1 <= k <= {kmax} and 0 <= i < k'
  cc = f'0 <= c1 <= {cmax} and 0 <= c2 <= {cmax}'
  # ---- SequenceIterator ------------------------------------------------------
  A(F('ob_seq_1cut', 'n: int, k: int, i: int, c1: int', nk + f' and 0 <= c1 <= {cmax}', """
      ds = io.SequenceDataSource(Seq(n)).shard(i, k)
      want = list(range(ds.start, ds.end))
      got, _ = _resume_chain(ds.iterate(), [c1], None)
      got2, _ = _resume_chain(ds.iterate(), [c1], lambda st: io.SequenceDataSource(Seq(n)).iterate().from_state(st))
      return got == want and got2 == want"""))
  A(F('ob_seq_2cut', 'n: int, k: int, i: int, c1: int, c2: int', nk + ' and ' + cc, """
      ds = io.SequenceDataSource(Seq(n)).shard(i, k)
      want = list(range(ds.start, ds.end))
      got, _ = _resume_chain(ds.iterate(), [c1, c2], None)
      return got == want"""))
  A(F('ob_seq_2cut_fresh', 'n: int, k: int, i: int, c1: int, c2: int', nk + ' and ' + cc, """
      ds = io.SequenceDataSource(Seq(n)).shard(i, k)
      want = list(range(ds.start, ds.end))
      got, _ = _resume_chain(ds.iterate(), [c1, c2], lambda st: io.SequenceDataSource(Seq(n)).iterate().from_state(st))
      return got == want"""))
  A(F('wit_seq_2cut', 'n: int, k: int, i: int, c1: int, c2: int', nk + ' and ' + cc, """
      ds = io.SequenceDataSource(Seq(n)).shard(i, k)
      it = ds.iterate(); a = _take(it, c1); it = it.from_state(it.state); b = _take(it, c2); it = it.from_state(it.state)
      return not (len(a) >= 1 and len(b) >= 1 and len(list(it)) >= 1)"""))
  if three_cuts:
    A(F('ob_seq_3cut', 'n: int, c1: int, c2: int, c3: int', f'0 <= n <= {nmax} and {cc} and 0 <= c3 <= {cmax}', """
      ds = io.SequenceDataSource(Seq(n))
      got, _ = _resume_chain(ds.iterate(), [c1, c2, c3], None)
      return got == list(range(n))"""))
  for k2 in nested:
    A(F(f'ob_seq_nested_2cut_k{k2}', 'n: int, k: int, i: int, i2: int, c1: int, c2: int',
        nk + f' and 0 <= i2 < {k2} and ' + cc, f"""
      ds = io.SequenceDataSource(Seq(n)).shard(i, k).shard(i2, {k2})
      want = list(range(ds.start, ds.end))
      got, _ = _resume_chain(ds.iterate(), [c1, c2], None)
      return got == want"""))
  # ---- restore, then re-shard the restored source, checkpoint a shard iterator and restore again ----------------
  A(F('ob_seq_restore_then_shard', 'n: int, c0: int, k: int, i: int, c1: int', f'0 <= n <= {nmax} and 0 <= c0 <= {cmax} and 1 <= k <= {min(kmax, 3)} and 0 <= i < k and 0 <= c1 <= {cmax}', """
      root = io.SequenceDataSource(Seq(n))
      it = root.iterate()
      head = _take(it, c0)
      remaining = root.from_state(it.state)            # a data source holding exactly what was not delivered yet
      shard = remaining.shard(i, k)
      want = list(range(shard.start, shard.end))
      it2 = shard.iterate()
      before = _take(it2, c1)
      st = it2.state
      after_root = list(root.from_state(st))
      after_it = list(root.iterate().from_state(st))
      return head == list(range(min(c0, n))) and list(shard) == want and before + after_root == want and before + after_it == want"""))
  # ---- DataIterator over a ShardedIterable -------------------------------------
  A(F('ob_data_2cut', 'n: int, k: int, i: int, c1: int, c2: int', nk + ' and ' + cc, """
      src = io.ShardedIterable(list(range(n))).shard(i, k)
      want = [x for x in range(n) if x % k == i]
      got, _ = _resume_chain(src.iterate(), [c1, c2], None)
      got2, _ = _resume_chain(src.iterate(), [c1, c2], lambda st: io.ShardedIterable(list(range(n))).iterate().from_state(st))
      return got == want and got2 == want"""))
  A(F('wit_data_2cut', 'n: int, k: int, i: int, c1: int, c2: int', nk + ' and ' + cc, """
      it = io.ShardedIterable(list(range(n))).shard(i, k).iterate()
      a = _take(it, c1); it = it.from_state(it.state); b = _take(it, c2); it = it.from_state(it.state)
      return not (len(a) >= 1 and len(b) >= 1 and len(list(it)) >= 1)"""))
  # ---- MultiplexIterator over two recoverable sources (sequential mode) ----------
  A(F('ob_multiplex_2cut', 'n: int, m: int, c1: int, c2: int', f'0 <= n <= {min(nmax, 4)} and 0 <= m <= 2 and {cc}', """
      mk = lambda: iter_utils.MultiplexIterator(data_sources=[io.SequenceDataSource(Seq(n)), io.ShardedIterable(list(range(100, 100 + m)))])
      want = list(range(n)) + list(range(100, 100 + m))
      it = mk()
      got = _take(it, c1); it = it.from_state(it.state)
      got += _take(it, c2); it = mk().from_state(it.state)
      got += list(it)
      return got == want"""))
  # ---- pipelines with an aggregate ---------------------------------------------
  for pn, pk, pc in pipes:
    PIPE = f"""
      n, k = {pn}, {pk}
      def mk():
        ds = io.SequenceDataSource(Seq(n))
        return transform.TreeTransform.new().data_source(ds).apply(lambda x: x + 1).agg(SumAgg(), output_keys='s')
      shard = io.ShardConfig(i, k)
      ref_it = mk().make(shard=shard).iterate()
      want = list(ref_it); want_agg = ref_it.agg_result
"""
    tag = f'n{pn}k{pk}'
    pre = f'0 <= i < {pk} and 0 <= c1 <= {pc} and 0 <= c2 <= {pc}'
    A(F(f'ob_pipe_2cut_{tag}', 'i: int, c1: int, c2: int', pre, PIPE + """
      got, it = _resume_chain(mk().make(shard=shard).iterate(), [c1, c2], None)
      return got == want and it.agg_result == want_agg"""))
    if heavy: A(F(f'ob_pipe_2cut_fresh_{tag}', 'i: int, c1: int, c2: int', pre, PIPE + """
      got, it = _resume_chain(mk().make(shard=shard).iterate(), [c1, c2], lambda st: mk().make().iterate().from_state(st))
      return got == want and it.agg_result == want_agg"""))
    A(F(f'ob_pipe_snapshot_{tag}', 'i: int, c1: int', f'0 <= i < {pk} and 0 <= c1 <= {pc}', PIPE + """
      it = mk().make(shard=shard).iterate()
      head = _take(it, c1)
      st = it.state
      rest = list(it)                       # the original keeps running after the checkpoint
      ok = head + rest == want and it.agg_result == want_agg
      r1 = mk().make().iterate().from_state(st)
      ok = ok and list(r1) == rest and r1.agg_result == want_agg
      r2 = mk().make().iterate().from_state(st)   # restoring again from the same captured state
      return ok and list(r2) == rest and r2.agg_result == want_agg"""))
    A(F(f'ob_pipe_returned_{tag}', 'i: int, c1: int', f'0 <= i < {pk} and 0 <= c1 <= {pc}', PIPE + """
      _, want_ret = _drain(mk().make(shard=shard).iterate())
      it = mk().make(shard=shard).iterate()
      head = _take(it, c1)
      it = it.from_state(it.state)
      rest, ret = _drain(it)
      return want_ret is not None and head + rest == want and _ret_key(ret) == _ret_key(want_ret)"""))
    if pn >= 2 * pk: A(F(f'wit_pipe_{tag}', 'i: int, c1: int', f'0 <= i < {pk} and 0 <= c1 <= {pc}', PIPE + """
      it = mk().make(shard=shard).iterate()
      head = _take(it, c1)
      return not (len(head) >= 1 and len(list(it)) >= 1 and want_agg is not None)"""))
  # sliced aggregate: per-slice states are part of the checkpoint (slice labels decided by a symbolic parity, values concrete)
  for n in ((3, 4) if heavy else (3,)):
    A(F(f'ob_pipe_sliced_n{n}', 'r: int, c1: int, c2: int', f'0 <= r <= 1 and 0 <= c1 <= {n} and 0 <= c2 <= 1', f"""
      n = {n}
      r = _conc(r, 1); c1 = _conc(c1, n); c2 = _conc(c2, 1)
      # everything is concrete from here on (r, c1, c2 were decided by solver branches): the slicing code (numpy string masks)
      # runs with opcode tracing switched off
      with _untraced():
        recs = [dict(g=['p' if i % 2 == r else 'q'], v=[i + 1]) for i in range(n)]
        def mk():
          return transform.TreeTransform.new().data_source(io.SequenceDataSource(list(recs))).agg(SumAggL(), input_keys='v', output_keys='s').add_slice('g')
        ref_it = mk().make().iterate()
        want = list(ref_it); want_agg = _agg_key(ref_it.agg_result)
        got, it = _resume_chain(mk().make().iterate(), [c1, c2], None)
        got_agg = _agg_key(it.agg_result)
      return len(want_agg) == (3 if n > 1 else 2) and got == want and got_agg == want_agg"""))
  # chains of two named aggregating stages (the source length is enumerated: one contract function per n keeps the path count per function small)
  CH = """
      n = {n}
      def mk():
        ds = io.SequenceDataSource(Seq(n))
        a = transform.TreeTransform.new(name='a').data_source(ds).apply(lambda x: x + 1).agg(SumAgg(), output_keys='sa')
        b = transform.TreeTransform.new(name='b').apply(lambda x: x * 2).agg(SumAgg(), output_keys='sb')
        return a.chain(b)
"""
  for n in range(0, (4 if heavy else 3)):
    cm = min(n, 2)
    A(F(f'ob_chained_2cut_n{n}', 'c1: int, c2: int', f'0 <= c1 <= {cm} and 0 <= c2 <= {cm}', CH.format(n=n) + """
      c1 = _conc(c1, 2); c2 = _conc(c2, 2)
      ref_it = mk().make().iterate()
      want = list(ref_it); want_agg = ref_it.agg_result
      got, it = _resume_chain(mk().make().iterate(), [c1, c2], None)
      return want == [2 * (x + 1) for x in range(n)] and got == want and it.agg_result == want_agg"""))
    A(F(f'ob_chained_returned_n{n}', 'c1: int', f'0 <= c1 <= {min(n, 2)}', CH.format(n=n) + """
      c1 = _conc(c1, 2)
      want, want_ret = _drain(mk().make().iterate())
      it = mk().make().iterate()
      head = _take(it, c1)
      it = it.from_state(it.state)
      rest, ret = _drain(it)
      return want_ret is not None and head + rest == want and _ret_key(ret) == _ret_key(want_ret) and it.agg_result == want_ret.agg_result"""))
  return '\n'.join(s)


def classify(name, call):
  return name


def run(tier):
  rep = common.Report('C10', tier, 'other',
                      'Bounded symbolic execution (CrossHair/z3) of the real state/from_state code of data-source iterators, '
                      'MultiplexIterator (sequential mode) and pipeline iterators with an in-place integer aggregate; source length, shard '
                      'configuration and every cut position are symbolic; "discharged" = "Confirmed over all paths"; counterexamples are replayed concretely.')
  from ml_metrics._src.chainables import io, transform
  from ml_metrics._src.utils import iter_utils
  rep.encoded(io.SequenceIterator.state, io.SequenceIterator.from_state, io.SequenceIterator.__next__, io.SequenceDataSource.from_state,
              io.SequenceDataSource.shard, io.DataIterator.state, io.DataIterator.from_state, io.DataIterator.__next__,
              iter_utils.MultiplexIterator.state, iter_utils.MultiplexIterator.from_state,
              transform._RunnerIterator.state, transform._RunnerIterator.from_state, transform._RunnerIterator.__next__,
              transform._ChainedRunnerIterator.state, transform._ChainedRunnerIterator.from_state)
  if tier == 'quick':
    p = dict(nmax=5, kmax=2, cmax=3, nested=[2], three_cuts=False, pipes=[(3, 1, 2), (4, 2, 2)], heavy=False)
    timeout = 360
  else:
    p = dict(nmax=8, kmax=4, cmax=4, nested=[2, 3], three_cuts=True, pipes=[(3, 1, 3), (4, 2, 2), (5, 1, 5), (7, 3, 3), (2, 3, 2)], heavy=True)
    timeout = 3600      # slowest obligations (nested 2-cut) need ~1700 CPU s on the unchanged tree
  rep.bounds(**p, per_condition_timeout_s=timeout,
             note='n = source length, (i,k) shard, c1..c3 = elements delivered between successive checkpoint/restore cycles (0 allowed)')
  rep.outside('num_threads > 0 (elements prefetched into queues at checkpoint time: whole-program concurrency, not encodable)',
              'data sources with ignore_error=True and failing elements (see known findings / C12)',
              'aggregates other than the in-place integer sum/count stand-in')
  rep.assume('copy.deepcopy in transform.py replaced during symbolic runs by a deep copy that shares immutable dict keys (CrossHair cannot re-hash copied str-bearing keys)', 'types.is_recoverable re-expressed with try/getattr instead of hasattr during symbolic runs (CrossHair limitation; same semantics)', 'absl logging and time.time in transform.py/iter_utils.py replaced by no-ops during symbolic runs (stubs; they only feed log messages)', 'CrossHair/z3 sound for int/list/dataclass semantics', 'deepcopy of plain python state is faithful under CrossHair')
  only = os.environ.get('VF_ONLY')
  xh.run_module(rep, gen(**p), 'c10_h', timeout, classify=classify, only=(lambda n: only in n) if only else None)
  return rep.finish()
