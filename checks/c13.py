"""C13 - parallel iteration yields the sequential multiset and releases its threads.

Engine B (pybmc): MultiplexIterator.__next__/maybe_stop -> DequeueIterator.__next__ (num_steps early stop) ->
IteratorQueue.get_batch  on the consumer side, pool workers running IteratorQueue.enqueue_from_iterator over a shared
_ThreadSafeIterator (piter_fn) or over independent inputs (piter_multiplex) on the producer side, all compiled from the
current source. The pool is modelled as threads that may start arbitrarily late; shutdown() joins them. Symbolic: the
interleaving, the early-stop position, the failure position. Decided by z3: no deadlock (shutdown returns: every helper
thread finished), outputs = the sequential multiset (run to exhaustion) / exactly k outputs (early stop at k) / the
input's exception reaches the caller.
"""
import os

from vf import common, srun
from vf.bmc_check import build, worker, absorb, replay  # noqa: F401


def scenarios(tier):
  S = []
  def add(name, **kw):
    kw.update(name=name, kind='mux', pred='c13')
    S.append(kw)
  add('par1-1item-exhaust', par=1, items=1, num_steps=255, depths=(60, 70, 80))
  add('par1-1item-earlystop-sym', par=1, items=1, num_steps=(0, 1), depths=(50, 60, 70, 80))
  add('par1-1item-fail-sym', par=1, items=1, num_steps=255, fail={0: (0, 255)}, depths=(60, 70, 80, 90))
  if tier == 'thorough':
    add('par1-2items-earlystop-sym', par=1, items=2, num_steps=(0, 2), depths=(90, 100, 110, 120, 130))
    add('par1-2items-fail-sym', par=1, items=2, num_steps=255, fail={0: (0, 255)}, depths=(100, 110, 120, 130, 140))
    add('par1-2items-exhaust', par=1, items=2, num_steps=255, depths=(70, 80, 90, 100))
    add('par2-shared-1item', par=2, items=1, num_steps=255, depths=(70, 80, 90, 100, 110))
    add('par2-shared-2items', par=2, items=2, num_steps=255, depths=(80, 90, 100, 110, 120))
    add('par2-independent-0item', par=2, items=0, shared=False, num_steps=255, depths=(40, 50, 60, 70))
    add('par2-independent-1item', par=2, items=1, shared=False, num_steps=255, depths=(70, 80, 90, 100, 110))
    add('par2-shared-2items-earlystop1', par=2, items=2, num_steps=1, depths=(60, 70, 80, 90, 100))
    add('par2-shared-2items-fail-sym', par=2, items=2, num_steps=255, fail={0: (0, 2)}, depths=(70, 80, 90, 100, 110))
  return S


def run(tier):
  rep = common.Report('C13', tier, 'model_checking',
                      'Bounded model checking of the real parallel-iteration stack (MultiplexIterator / DequeueIterator / IteratorQueue / _ThreadSafeIterator, compiled from '
                      'source) with pool workers as threads that may start arbitrarily late and shutdown() as a join. z3 decides over all interleavings: no deadlock (all helper '
                      'threads finish, shutdown returns) and the final-state predicate on the delivered outputs; unwinding query; traces replayed on the real classes.')
  sc = scenarios(tier)
  only = os.environ.get('VF_ONLY')
  jobs = [(s, tier) for s in sc if not only or only in s['name']]
  rep.bounds(scenarios=sc, note='par = degree of parallelism (pool workers), buffer = 3*par as in MultiplexIterator; NS = DequeueIterator num_steps (255 = run to exhaustion); FAIL = failing position of the input')
  rep.outside('parallelism > 2, more than 2 elements', 'more input iterators than pool workers (queued executor tasks)', 'the executor implementation itself', 'asyncio variants')
  rep.assume('ThreadPoolExecutor: one thread per submitted task, start delayed arbitrarily; shutdown() returns when all of them have finished', 'iter_fn is the identity generator over the shared input')
  from ml_metrics._src.utils import iter_utils as iu
  rep.encoded(iu.MultiplexIterator.__next__, iu.MultiplexIterator.maybe_stop, iu.DequeueIterator.__next__, iu.DequeueIterator.maybe_stop, iu._ThreadSafeIterator.__next__,
              iu.IteratorQueue.get_batch, iu.IteratorQueue.get_nowait, iu.IteratorQueue.enqueue_from_iterator, iu.IteratorQueue.put, iu.IteratorQueue.maybe_stop,
              iu.IteratorQueue._stop_enqueue, iu.piter_fn, iu.piter_multiplex)
  results = srun.run_jobs(worker, jobs, nproc=min(len(jobs), common.NCPU))
  absorb(rep, results, 'C13')
  return rep.finish()
