"""Metric specifications shared by the engine-S checks (C01, C11, C07).

A spec describes how to build an accumulator of a shipped metric, how to draw one *row* of
symbolic input for it, how to turn rows into `add()` arguments and what the observable
result is. Row values are `symx` proxies in symbolic runs and plain floats/ints in
concrete replays - the same scenario code runs in both modes.
"""
from __future__ import annotations

import dataclasses
from typing import Any, Callable

import numpy as np


@dataclasses.dataclass
class Spec:
  name: str
  make: Callable[[], Any]
  gen: Callable[[Any, int], tuple]          # (ctx, row index) -> tuple of per-argument row values
  obs: Callable[[Any], Any]                 # accumulator -> observable result structure
  modules: tuple = ()                       # module names whose np/math get the facade
  batch: Callable[[list], tuple] | None = None   # rows -> add() args; default: one list per column
  per_row: Callable[[Any, int], Any] | None = None  # (return value of add, #rows) -> list of per-row values
  order_insensitive: bool = True            # result invariant under permutation of states
  nan: bool = False
  note: str = ''
  max_comps: int = 0                        # 0 = all compositions; otherwise only the first k of a fixed diverse order

  def to_batch(self, rows):
    if self.batch is not None:
      return self.batch(rows)
    return tuple(list(col) for col in zip(*rows))


def _mods(*names):
  import importlib
  return tuple(importlib.import_module('ml_metrics._src.' + n) for n in names)


ROLL = ('aggregates.rolling_stats', 'utils.math_utils', 'aggregates.utils')
CLS = ('aggregates.classification', 'utils.math_utils', 'aggregates.utils')
RET = ('aggregates.retrieval', 'utils.math_utils', 'aggregates.utils')


def _r(nan=False, lo=None, hi=None):
  return lambda c, i: (c.real(f'x{i}', nan=nan, lo=lo, hi=hi),)


def _r2(nan=False):
  return lambda c, i: ([c.real(f'x{i}_0', nan=nan), c.real(f'x{i}_1', nan=nan)],)


def _xy(lo=None, hi=None):
  return lambda c, i: (c.real(f'x{i}', lo=lo, hi=hi), c.real(f'y{i}', lo=lo, hi=hi))


def _lab(k=3):
  return lambda c, i: (c.int(f't{i}', 0, k - 1), c.int(f'p{i}', 0, k - 1))


def specs(tier='quick'):
  from ml_metrics._src.aggregates import rolling_stats as rs
  from ml_metrics._src.aggregates import utils as agg_utils
  from ml_metrics._src.aggregates import classification as cls
  from ml_metrics._src.aggregates import retrieval as ret
  S = []
  A = S.append
  mv = lambda m: (m.count, m.mean, m.var)
  A(Spec('Mean', rs.Mean, _r(True), lambda m: (m.count, m.mean, m.total, m.result()), ROLL, nan=True))
  A(Spec('Mean2D', rs.Mean, _r2(True), lambda m: (m.count, m.mean, m.total), ROLL, nan=True))
  A(Spec('MeanAndVariance', rs.MeanAndVariance, _r(True), mv, ROLL, nan=True))
  A(Spec('MeanAndVariance2D', rs.MeanAndVariance, _r2(True), mv, ROLL, nan=True))
  A(Spec('Var', rs.Var, _r(False), lambda m: (m.count, m.result()), ROLL))
  A(Spec('MinMaxAndCount', rs.MinMaxAndCount, _r(False, lo=0), lambda m: (m.count, m.min, m.max), ROLL,
         note='non-negative inputs (the documented use is per-row input counts; _max starts at 0)'))
  A(Spec('Histogram', lambda: rs.Histogram(range=(0, 1), bins=2), _r(False), lambda m: tuple(m.result().hist), ROLL))
  A(Spec('HistogramWeighted', lambda: rs.Histogram(range=(0, 3), bins=3),
         lambda c, i: (c.real(f'x{i}'), c.real(f'w{i}')), lambda m: tuple(m.result().hist), ROLL))
  A(Spec('Counter', rs.Counter, lambda c, i: (c.int(f'x{i}', 0, 2),), lambda m: {int(k): v for k, v in m.result().items()}, ROLL))
  A(Spec('UnboundedSampler', rs.UnboundedSampler, _xy(), lambda m: m.result(), ROLL, order_insensitive=False))
  A(Spec('ValueAccumulator', rs.ValueAccumulator, _xy(), lambda m: tuple([v for b in col for v in b] for col in m.data), ROLL, order_insensitive=False,
         batch=lambda rows: tuple([x for x in col] for col in zip(*rows)),
         note='stores one entry per add() call; compared after flattening, i.e. up to the documented concatenation order'))
  A(Spec('R2Tjur', rs.R2Tjur, lambda c, i: (c.int(f't{i}', 0, 1), c.real(f'p{i}', lo=0, hi=1)),
         lambda m: m.result(), ROLL))
  A(Spec('R2TjurRelative', rs.R2TjurRelative, lambda c, i: (c.int(f't{i}', 0, 1), c.real(f'p{i}', lo=0, hi=1)),
         lambda m: m.result(), ROLL))
  A(Spec('RRegression', rs.RRegression, _xy(), lambda m: (m.num_samples, m.sum_x, m.sum_y, m.sum_xx, m.sum_yy, m.sum_xy), ROLL,
         note='sufficient statistics compared (the correlation itself needs sqrt; see C07)'))
  A(Spec('SymmetricPredictionDifference', rs.SymmetricPredictionDifference, _xy(lo=1, hi=5), lambda m: m.result(), ROLL))
  A(Spec('MeanState', agg_utils.MeanState, _r(False), lambda m: (m.total, m.count, m.result()), ROLL))
  A(Spec('TupleMeanState', agg_utils.TupleMeanState, _xy(), lambda m: m.result(), ROLL))
  # ---- classification --------------------------------------------------------------
  def cm_obs(fn):
    return lambda st: fn.get_result(st)
  A(Spec('ConfusionMatrixBinary', lambda: _AggAcc(cls.ConfusionMatrixAggFn(metrics=('precision', 'recall', 'f1_score', 'binary_accuracy'))),
         lambda c, i: (c.int(f't{i}', 0, 1), c.int(f'p{i}', 0, 1)), lambda m: m.result(), CLS))
  A(Spec('ConfusionMatrixMulticlassMicro',
         lambda: _AggAcc(cls.ConfusionMatrixAggFn(metrics=('precision', 'recall'), input_type='multiclass', average='micro', vocab={0: 0, 1: 1, 2: 2})),
         _lab(3), lambda m: m.result(), CLS))
  A(Spec('ConfusionMatrixMulticlassMacro',
         lambda: _AggAcc(cls.ConfusionMatrixAggFn(metrics=('precision', 'recall'), input_type='multiclass', average='macro', vocab={0: 0, 1: 1, 2: 2})),
         _lab(3), lambda m: m.result(), CLS))
  A(Spec('TopKConfusionMatrix',
         lambda: _AggAcc(cls.TopKConfusionMatrixAggFn(metrics=('precision', 'recall'), input_type='multiclass-multioutput', average='micro',
                                                      vocab={0: 0, 1: 1}, k_list=(1, 2))),
         lambda c, i: ([c.int(f't{i}', 0, 1)], [c.int(f'p{i}a', 0, 1), c.int(f'p{i}b', 0, 1)]), lambda m: m.result(), CLS))
  A(Spec('SamplewiseClassification',
         lambda: cls.SamplewiseClassification(metrics=('precision', 'recall', 'f1_score'), input_type='multiclass-multioutput', vocab={0: 0, 1: 1}),
         lambda c, i: ([c.int(f't{i}', 0, 1)], [c.int(f'p{i}a', 0, 1), c.int(f'p{i}b', 0, 1)]), lambda m: m.result(), CLS,
         per_row=lambda ret, n: [tuple(ret[k][j] for k in sorted(ret)) for j in range(n)]))
  # ---- retrieval -------------------------------------------------------------------
  RM = ('precision', 'recall', 'accuracy', 'f1_score', 'mean_average_precision', 'mean_reciprocal_rank', 'miss_rate',
        'threat_score', 'intersection_over_union')
  A(Spec('TopKRetrieval', lambda: ret.TopKRetrieval(k_list=(1, 2), metrics=RM),
         lambda c, i: ([c.int(f't{i}', 0, 2)], [c.int(f'p{i}a', 0, 2), c.int(f'p{i}b', 0, 2)]),
         lambda m: m.result(), RET,
         per_row=lambda r, n: [tuple(tuple(r[k][j]) for k in sorted(r)) for j in range(n)]))
  A(Spec('TopKRetrievalRagged', lambda: ret.TopKRetrieval(k_list=(1, 2, 3), metrics=('precision', 'recall', 'mean_average_precision')),
         lambda c, i: ([c.int(f't{i}', 0, 2)], [c.int(f'p{i}_{j}', 0, 2) for j in range(1 + (i % 3))]),
         lambda m: m.result(), RET,
         per_row=lambda r, n: [tuple(tuple(r[k][j]) for k in sorted(r)) for j in range(n)],
         note='row i has 1 + (i mod 3) predictions (ragged rankings)'))
  A(Spec('ThresholdedRetrieval', lambda: ret.ThresholdedRetrieval(thresholds=(0.25, 0.75)),
         lambda c, i: (lambda mt, mp: (mt, mp, mp))(c.real(f'mt{i}', lo=0, hi=1), c.real(f'mp{i}', lo=0, hi=1)),
         lambda m: tuple(tuple(np.asarray(v).tolist()) for k, v in m.result().items() if k != 'thresholds'), RET,
         batch=lambda rows: (None, None, [[r[2]] for r in rows], [[r[0]] for r in rows], [[r[1]] for r in rows]),
         note='matched probabilities are given directly (the matcher is skipped); one candidate per row, y_prob = matched_pred_prob'))
  # ---- text frequency metrics: words are chosen by symbolic ints (concretised per path); structure only -------------
  from ml_metrics._src.aggregates import text as agg_text
  TXT = ('aggregates.text', 'aggregates.utils', 'utils.math_utils')
  def text_row(lengths, vocab='abc'):
    def gen(c, i):
      L = lengths[i % len(lengths)]
      return (' '.join(vocab[int(c.int(f'w{i}_{j}', 0, len(vocab) - 1))] for j in range(L)),)
    return gen
  A(Spec('TopKWordNGrams_k1', lambda: agg_text.TopKWordNGrams(k=1, n=1), text_row((3, 2, 2)), lambda m: m.result(), TXT, max_comps=4,
         note='k=1: a truncation of the merged state to the top k is visible'))
  A(Spec('TopKWordNGrams_k2_bigrams', lambda: agg_text.TopKWordNGrams(k=2, n=2, count_duplicate=False), text_row((3, 2, 2)),
         lambda m: m.result(), TXT, max_comps=4))
  A(Spec('PatternFrequency', lambda: agg_text.PatternFrequency(patterns=('a', 'ab')), text_row((2, 2, 2)), lambda m: m.result(), TXT))
  # wide state: text 0 carries 10 fixed words x5 plus two solver-chosen words, the other texts two solver-chosen words each, so a merged
  # state holds more than 10*k distinct n-grams and a word that is rare per state can be the most frequent overall (seed C11-m4)
  WIDE = ' '.join('k' + 'abcdefghij'[j] for j in range(10) for _ in range(5))   # letters only: the tokenizer drops digits
  def wide_row(c, i):
    tail = ' '.join('zy'[int(c.int(f'w{i}_{j}', 0, 1))] for j in range(2))
    return ((WIDE + ' ' + tail) if i == 0 else tail,)
  A(Spec('TopKWordNGrams_k1_wide', lambda: agg_text.TopKWordNGrams(k=1, n=1), wide_row, lambda m: m.result(), TXT, max_comps=4,
         note='more than 10*k distinct words in one merged state; only the four to eight tail words are solver-chosen'))
  if tier == 'laws':   # smaller text inputs for the algebraic-law check (C11): up to 4 texts are involved there
    for sp in S:
      if sp.name == 'TopKWordNGrams_k1':
        sp.gen = text_row((2, 2, 1), 'ab')
      if sp.name == 'PatternFrequency':
        sp.gen = text_row((2, 2, 2), 'ab')
  return S


class _AggAcc:
  """Accumulator view of an AggregateFn (create_state / update_state / merge_states / get_result)."""

  def __init__(self, fn):
    self.fn = fn
    self.state = fn.create_state()

  def add(self, *args):
    self.state = self.fn.update_state(self.state, *args)

  def merge(self, other):
    if other.state is None:
      return
    self.state = other.state if self.state is None else self.fn.merge_states([self.state, other.state])

  def result(self):
    return self.fn.get_result(self.state) if self.state is not None else None


def modules_of(spec):
  return _mods(*spec.modules)
