"""C12 - error skipping drops only failing elements; otherwise the first error surfaces.

Engine A: CrossHair executes the real iter_ignore_error / processed_with_inputs / _RangeIterator skip-on-error /
TreeFn._iterate / Assign / FilterFn / Sink / _RunnerIterator with a *symbolic fault schedule*: one failure bit per
element for the operator and one per element for the data source. Operator kind, stream length and re-batching
options are enumerated by the generator.
"""
import os

from vf import common, xh

PRELUDE = '''
from ml_metrics._src.chainables import io
from ml_metrics._src.chainables import transform
from ml_metrics._src.utils import iter_utils
from ml_metrics._src import types as _types
_vf_silence(transform, iter_utils, io)

class Boom(ValueError):
  pass

class FSeq:
  """Random-access source of n elements; reading a range that contains a failing index raises."""
  def __init__(self, n, bad): self.n = n; self.bad = bad
  def __len__(self): return self.n
  def __getitem__(self, i):
    if isinstance(i, slice):
      start, stop, step = i.indices(self.n)
      idx = list(range(start, stop, step))
      if any(self.bad[j] for j in idx): raise Boom('bad record in range')
      return idx
    if i < 0: i += self.n
    if not 0 <= i < self.n: raise IndexError('seq index out of range')
    if self.bad[i]: raise Boom('bad record')
    return i

class MemSink:
  def __init__(self, bad=()): self.rows = []; self.closed = 0; self.bad = bad
  def write(self, x):
    if self.bad and self.bad[x]: raise Boom('cannot write')
    self.rows.append(x)
  def close(self): self.closed += 1

def _fn(bad):
  def fn(x):
    if bad[x]: raise Boom('bad element')
    return x + 100
  return fn

def _run(t, data, ignore_error):
  """Returns (outputs, None | description of the error, iterator). The exception object itself is dropped
  (as after an `except` block) so that generator finalisation is not delayed by its traceback."""
  out, info = [], None
  it = t.make().iterate(data, ignore_error=ignore_error)
  try:
    for x in it: out.append(x)
  except Exception as e:
    info = 'Boom-caused' if _root_cause(e) else type(e).__name__
    e = None
  if info is not None:
    try:            # iteration must have stopped: asking again delivers nothing more
      next(it)
      info += '+resumed'
    except StopIteration:
      pass
    except Exception:
      info += '+raised-again'
  return out, info, it

def _root_cause(e):
  seen = 0
  while e is not None and seen < 10:
    if isinstance(e, Boom): return True
    e = e.__cause__ or e.__context__
    seen += 1
  return False
'''


def _bits(n, p):
  return ', '.join(f'{p}{j}: bool' for j in range(n)), '[' + ', '.join(f'{p}{j}' for j in range(n)) + ']'


def gen(ns, nsrc, batch_opts):
  F = xh.fn
  s = [PRELUDE]
  A = s.append
  for n in ns:
    fa, fl = _bits(n, 'f')
    # ---- skipping on, one operator, failures in the operator ------------------
    A(F(f'ob_skip_apply_n{n}', fa, 'True', f"""
      bad = {fl}
      out, err, it = _run(transform.TreeTransform.new().apply(_fn(bad)), list(range({n})), True)
      return err is None and out == [x + 100 for x in range({n}) if not bad[x]]"""))
    A(F(f'ob_skip_assign_n{n}', fa, 'True', f"""
      bad = {fl}
      data = [{{'a': x}} for x in range({n})]
      out, err, it = _run(transform.TreeTransform.new().assign('b', fn=_fn(bad), input_keys='a'), data, True)
      return err is None and out == [{{'a': x, 'b': x + 100}} for x in range({n}) if not bad[x]]"""))
    A(F(f'ob_skip_sink_n{n}', fa, 'True', f"""
      bad = {fl}
      sink = MemSink(bad)
      out, err, it = _run(transform.TreeTransform.new().sink(sink), list(range({n})), True)
      good = [x for x in range({n}) if not bad[x]]
      return err is None and out == good and sink.rows == good and sink.closed == 1"""))
    A(F(f'ob_skip_filter_n{n}', fa, 'True', f"""
      bad = {fl}
      def pred(x):
        if bad[x]: raise Boom('bad element')
        return x % 2 == 0
      out, err, it = _run(transform.TreeTransform.new().filter(pred), list(range({n})), True)
      return err is None and out == [x for x in range({n}) if not bad[x] and x % 2 == 0]"""))
    A(F(f'ob_skip_select_assign_chain_n{n}', fa + ', ' + _bits(n, 'g')[0], 'True', f"""
      bad1 = {fl}; bad2 = {_bits(n, 'g')[1]}
      data = [{{'a': x}} for x in range({n})]
      t = (transform.TreeTransform.new().assign('b', fn=_fn(bad1), input_keys='a')
           .assign('c', fn=lambda b: _fn(bad2)(b - 100) + 100, input_keys='b'))
      out, err, it = _run(t, data, True)
      want = [{{'a': x, 'b': x + 100, 'c': x + 200}} for x in range({n}) if not bad1[x] and not bad2[x]]
      return err is None and out == want"""))
    # ---- skipping off: first error surfaces with the cause, nothing after it, sink closed -------
    A(F(f'ob_noskip_apply_n{n}', fa, 'True', f"""
      bad = {fl}
      out, err, it = _run(transform.TreeTransform.new().apply(_fn(bad)), list(range({n})), False)
      first = next((x for x in range({n}) if bad[x]), None)
      if first is None:
        return err is None and out == [x + 100 for x in range({n})]
      return err == 'Boom-caused' and out == [x + 100 for x in range(first)]"""))
    A(F(f'ob_noskip_sink_then_apply_n{n}', fa, 'True', f"""
      bad = {fl}
      sink = MemSink()
      out, err, it = _run(transform.TreeTransform.new().sink(sink).apply(_fn(bad)), list(range({n})), False)
      first = next((x for x in range({n}) if bad[x]), None)
      if first is None:
        return err is None and out == [x + 100 for x in range({n})] and sink.closed == 1 and sink.rows == list(range({n}))
      return (err == 'Boom-caused' and out == [x + 100 for x in range(first)]
              and sink.closed == 1 and sink.rows == list(range(first + 1)))"""))
    A(F(f'ob_noskip_assign_n{n}', fa, 'True', f"""
      bad = {fl}
      data = [{{'a': x}} for x in range({n})]
      out, err, it = _run(transform.TreeTransform.new().assign('b', fn=_fn(bad), input_keys='a'), data, False)
      first = next((x for x in range({n}) if bad[x]), None)
      if first is None:
        return err is None and len(out) == {n}
      return err == 'Boom-caused' and out == [{{'a': x, 'b': x + 100}} for x in range(first)]"""))
  for n in nsrc:
    ga, gl = _bits(n, 'g')
    for batch in (1, 2, 8):
      A(F(f'ob_source_skip_n{n}_readahead{batch}', ga, 'True', f"""
      bad = {gl}
      m = iter_utils.MergedSequences([FSeq({n}, bad)], max_batch_size={batch})
      ds = io.SequenceDataSource(m, ignore_error=True)
      return list(ds) == [x for x in range({n}) if not bad[x]]"""))
    A(F(f'ob_source_noskip_n{n}', ga, 'True', f"""
      bad = {gl}
      ds = io.SequenceDataSource(iter_utils.MergedSequences([FSeq({n}, bad)], max_batch_size=2))
      out, err = [], None
      it = iter(ds)
      try:
        for x in it: out.append(x)
      except Boom as e:
        err = e
      first = next((x for x in range({n}) if bad[x]), None)
      if first is None:
        return err is None and out == list(range({n}))
      return err is not None and out == list(range(first))"""))
    A(F(f'ob_source_and_apply_skip_n{n}', ga + ', ' + _bits(n, 'f')[0], 'True', f"""
      badsrc = {gl}; bad = {_bits(n, 'f')[1]}
      ds = io.SequenceDataSource(iter_utils.MergedSequences([FSeq({n}, badsrc)], max_batch_size=2), ignore_error=True)
      t = transform.TreeTransform.new().data_source(ds).apply(_fn(bad))
      out, err = [], None
      try:
        for x in t.make().iterate(ignore_error=True): out.append(x)
      except Exception as e:
        err = e
      return err is None and out == [x + 100 for x in range({n}) if not badsrc[x] and not bad[x]]"""))
    A(F(f'ob_source_and_assign_skip_n{n}', ga + ', ' + _bits(n, 'f')[0], 'True', f"""
      badsrc = {gl}; bad = {_bits(n, 'f')[1]}
      class Rec(FSeq):
        def __getitem__(self, i):
          r = super().__getitem__(i)
          return [{{'a': x}} for x in r] if isinstance(r, list) else {{'a': r}}
      ds = io.SequenceDataSource(iter_utils.MergedSequences([Rec({n}, badsrc)], max_batch_size=2), ignore_error=True)
      t = transform.TreeTransform.new().data_source(ds).assign('b', fn=_fn(bad), input_keys='a')
      out, err = [], None
      try:
        for x in t.make().iterate(ignore_error=True): out.append(x)
      except Exception as e:
        err = e
      return err is None and out == [{{'a': x, 'b': x + 100}} for x in range({n}) if not badsrc[x] and not bad[x]]"""))
  # ---- re-batching options with skipping: an element is one function call (a re-batched batch) -------
  for (nb, fbs, obs) in batch_opts:
    fa, fl = _bits(nb, 'f')
    A(F(f'ob_skip_apply_rebatch_nb{nb}_f{fbs}_o{obs}', fa, 'True', f"""
      bad = {fl}                                  # row-level failure bits, {nb} rows arriving one row per input batch
      def fn(xs):
        if any(bad[x] for x in xs): raise Boom('bad row in batch')
        return [x + 100 for x in xs]
      data = [[x] for x in range({nb})]
      t = transform.TreeTransform.new().apply(fn, fn_batch_size={fbs}, batch_size={obs})
      out, err, it = _run(t, data, True)
      groups = [list(range(i, min(i + {fbs}, {nb}))) for i in range(0, {nb}, {fbs})] if {fbs} else [[x] for x in range({nb})]
      rows = [x + 100 for g in groups if not any(bad[x] for x in g) for x in g]
      flat = [x for b in out for x in b]
      ok = err is None and flat == rows
      if {obs} and rows:
        ok = ok and all(len(b) == {obs} for b in out[:-1]) and 0 < len(out[-1]) <= {obs}
      return ok"""))
    if obs:
      A(F(f'ob_skip_assign_rebatch_nb{nb}_f{fbs}_o{obs}', fa, 'True', f"""
      bad = {fl}
      def fn(xs):
        if any(bad[x] for x in xs): raise Boom('bad row in batch')
        return [x + 100 for x in xs]
      # assign with re-batching is used with batch_size == the input batch size, so outputs realign with records
      data = [{{'a': list(range(i, min(i + {obs}, {nb})))}} for i in range(0, {nb}, {obs})]
      t = transform.TreeTransform.new().assign('b', fn=fn, input_keys='a', fn_batch_size={fbs}, batch_size={obs})
      out, err, it = _run(t, data, True)
      if not any(bad):
        return err is None and out == [{{'a': r['a'], 'b': [v + 100 for v in r['a']]}} for r in data]
      # with failures: every emitted record must pair b with its own a, and rows of good function calls are not lost
      ok = err is None and all([v + 100 for v in r['a']] == list(r['b']) for r in out)
      groups = [list(range(i, min(i + {fbs}, {nb}))) for i in range(0, {nb}, {fbs})] if {fbs} else [r['a'] for r in data]
      rows = [x for g in groups if not any(bad[x] for x in g) for x in g]
      return ok and [v - 100 for r in out for v in r['b']] == rows"""))
  for (nb, fbs, obs) in batch_opts:
    if obs:
      A(F(f'ob_noerr_assign_rebatch_nb{nb}_f{fbs}_o{obs}', 'dummy: bool', 'True', f"""
      def fn(xs): return [x + 100 for x in xs]
      data = [{{'a': list(range(i, min(i + {obs}, {nb})))}} for i in range(0, {nb}, {obs})]
      t = transform.TreeTransform.new().assign('b', fn=fn, input_keys='a', fn_batch_size={fbs}, batch_size={obs})
      out, err, it = _run(t, data, dummy)
      return err is None and out == [{{'a': r['a'], 'b': [v + 100 for v in r['a']]}} for r in data]"""))
  A(F('wit_skip', 'f0: bool, f1: bool, f2: bool', 'True', """
      bad = [f0, f1, f2]
      out, err, it = _run(transform.TreeTransform.new().apply(_fn(bad)), [0, 1, 2], True)
      return not (len(out) == 1 and f0 and f1)"""))
  return '\n'.join(s)


def classify(name, call):
  # Known finding: Assign with batch_size/fn_batch_size under error skipping. The failing call kills the
  # (generator based) re-batching stage, so every later record is silently lost. Only counterexamples on
  # that operator/option combination *with at least one failing element* carry this signature.
  if name.startswith('ob_skip_assign_rebatch_') and 'True' in call:
    return 'assign-rebatch-skip-loses-records-after-failure'
  return name


def run(tier):
  rep = common.Report('C12', tier, 'other',
                      'Bounded symbolic execution (CrossHair/z3) of the real error-skipping code paths with a symbolic fault schedule '
                      '(one failure bit per element, for operators and for the data source); "discharged" = "Confirmed over all paths" '
                      '(all 2^n schedules covered through path exploration, not sampling); counterexamples are replayed concretely.')
  from ml_metrics._src.chainables import io, transform, tree_fns
  from ml_metrics._src.utils import iter_utils
  rep.encoded(iter_utils.iter_ignore_error, iter_utils.map_ignore_error, iter_utils.processed_with_inputs,
              iter_utils._TeeIterator.__next__, iter_utils._TeeIterator.tee, iter_utils._RangeIterator.__next__,
              tree_fns.TreeFn._iterate, tree_fns.TreeFn.iterate, tree_fns.TreeFn._maybe_call_fn, tree_fns.Assign.iterate,
              tree_fns.FilterFn.iterate, tree_fns.Sink.iterate, transform._RunnerIterator.__init__, io.SequenceIterator.__init__)
  if tier == 'quick':
    p = dict(ns=[3], nsrc=[4], batch_opts=[(4, 2, 2), (3, 0, 2), (4, 1, 2)])
    timeout = 150
  else:
    p = dict(ns=[1, 2, 3, 4, 5], nsrc=[3, 4, 5], batch_opts=[(4, 2, 2), (3, 0, 2), (5, 2, 3), (4, 3, 1), (6, 2, 2)])
    timeout = 2400      # slowest obligation on the unchanged tree: ~1000 CPU s (nsrc=6 did not finish)
  rep.bounds(**p, per_condition_timeout_s=timeout,
             note='ns = stream lengths with per-element operator failure bits; nsrc = source lengths with per-element source failure '
                  'bits (read-ahead 1, 2, 8); batch_opts = (rows, fn_batch_size, batch_size)')
  rep.outside('num_threads > 0 (helper threads: whole-program concurrency; queue-level error propagation is C05/C13)',
              'error types other than ValueError/TypeError subclasses (not skippable by design)')
  rep.assume('absl logging/time replaced by no-ops in symbolic runs', 'CrossHair/z3 sound for bool/int/list/generator semantics')
  only = os.environ.get('VF_ONLY')
  xh.run_module(rep, gen(**p), 'c12_h', timeout, classify=classify, only=(lambda n: only in n) if only else None)
  return rep.finish()
