"""C01 - aggregates are invariant to how data is batched and sharded.

Engine S (symx): the real add/merge/result code of every shipped numeric metric runs on symbolic rows
(reals with an explicit NaN case split, labels from a small integer domain); the generator enumerates
every composition of the n rows into shards and batches; per path z3 proves
  result(merge of shard accumulators) == result(one accumulator, one batch)
and, where `add` returns per-row values, that a row's values do not depend on its batch mates.
"""
import itertools
import os
import random

from vf import common, srun, symx
from checks import metric_specs


def compositions(n, max_shards, empties=True):
  """All ways to cut rows 0..n-1 into consecutive batches grouped into <= max_shards shards (+ empty-shard variants)."""
  out = []
  for gaps in itertools.product((0, 1, 2), repeat=n - 1):   # 0: same batch, 1: new batch, 2: new shard
    shards, cur_shard, cur = [], [], 1
    for g in gaps:
      if g == 0:
        cur += 1
      elif g == 1:
        cur_shard.append(cur); cur = 1
      else:
        cur_shard.append(cur); shards.append(cur_shard); cur_shard, cur = [], 1
    cur_shard.append(cur); shards.append(cur_shard)
    if len(shards) <= max_shards:
      out.append(shards)
  if empties:
    out += [[[]] + out[0], out[-1] + [[]], [[1], [], [n - 1]] if n >= 2 else [[], [1]]]
  # drop the trivial composition (one shard, one batch) unless it is the only one
  return [c for c in out if c != [[n]]] or out


SPECS = {}


def _spec(name, tier):
  if not SPECS:
    for s in metric_specs.specs(tier):
      SPECS[s.name] = s
  return SPECS[name]


def make_build(spec, n, comp):
  def build(c):
    rows = [spec.gen(c, i) for i in range(n)]
    out = {}
    def guarded(f):
      try:
        return f()
      except Exception as e:  # library error: part of the observable behaviour
        return ('EXC', type(e).__name__)
    def whole():
      m = spec.make()
      ret = m.add(*spec.to_batch(rows))
      pr = spec.per_row(ret, n) if spec.per_row else None
      return spec.obs(m), pr
    def split():
      accs, pr, k = [], [], 0
      for shard in comp:
        acc = spec.make()
        for b in shard:
          ret = acc.add(*spec.to_batch(rows[k:k + b]))
          if spec.per_row:
            pr += spec.per_row(ret, b)
          k += b
        accs.append(acc)
      merged = merge_all(spec, accs)
      return spec.obs(merged), (pr if spec.per_row else None)
    w, s = guarded(whole), guarded(split)
    out['whole'], out['split'] = (w[0], s[0]) if (w[0] != 'EXC' and s[0] != 'EXC') else (w, s)
    if spec.per_row and w[0] != 'EXC' and s[0] != 'EXC':
      out['rows_whole'], out['rows_split'] = w[1], s[1]
    return out
  return build


def merge_all(spec, accs):
  """Merges shard accumulators the way a distributed run does (first state receives the others)."""
  if isinstance(accs[0], metric_specs._AggAcc):
    fn = accs[0].fn
    states = [a.state for a in accs]
    out = metric_specs._AggAcc(fn)
    out.state = fn.merge_states(states)
    return out
  accs = list(accs)
  first = accs[0]
  for a in accs[1:]:
    first.merge(a)
  return first


def fss_worker(job):
  """FixedSizeSample: reservoirs are constructed directly (size = min(max_size, reviewed)), the RNG is a
  nondeterministic stub (every draw a fresh symbolic value in its documented range); merged in shard order."""
  _, max_size, shards, tier, seed = job
  from ml_metrics._src.aggregates import rolling_stats as rs
  from checks import c11
  mods = metric_specs._mods(*metric_specs.ROLL)

  def scn(c):
    c11.StubRng.n = 0
    with symx.patched(*mods):
      import types as _t
      rs.np.random = _t.SimpleNamespace(default_rng=lambda seed=None: c11.StubRng())
      accs, inputs, k = [], [], 0
      for reviewed in shards:
        held = min(max_size, reviewed)
        vals = [c.real(f'x{k + j}') for j in range(held)]
        k += held
        inputs += vals
        accs.append(rs.FixedSizeSample(max_size=max_size, seed=0, _reservoir=list(vals), _num_samples_reviewed=reviewed))
      first = accs[0]
      for a in accs[1:]:
        first.merge(a)
      res = first.result()
    total = sum(shards)
    member = all(any(r is x for x in inputs) for r in res)
    distinct = len({id(r) for r in res}) == len(res)
    return [('size==min(max_size,N)', z3b(len(res) == min(max_size, total))), ('membership: every sample is one of the inputs, none twice', z3b(member and distinct)),
            ('reviewed-count==N', z3b(first.num_samples_reviewed == total))]
  res = symx.explore(scn, max_paths=20000, timeout_s=240 if tier == 'quick' else 2000)
  failed = []
  for claim, values, prefix in res.failed[:2]:
    # replay on the real class with the real numpy RNG: the three facts do not depend on the RNG draws
    accs, k = [], 0
    for reviewed in shards:
      held = min(max_size, reviewed)
      accs.append(rs.FixedSizeSample(max_size=max_size, seed=0, _reservoir=[float(k + j) for j in range(held)], _num_samples_reviewed=reviewed))
      k += held
    for a in accs[1:]:
      accs[0].merge(a)
    r = accs[0].result()
    bad = len(r) != min(max_size, sum(shards)) or len(set(r)) != len(r) or not set(r) <= set(map(float, range(k))) or accs[0].num_samples_reviewed != sum(shards)
    failed.append({'claim': claim, 'values': values, 'reproduced': bool(bad), 'detail': f'real class, real RNG: reservoir={r} reviewed={accs[0].num_samples_reviewed}'})
  return {'job': ['FixedSizeSample', max_size, list(shards)], 'paths': res.paths, 'cut': res.cut, 'cut_reasons': res.cut_reasons, 'claims': res.claims,
          'discharged': res.discharged, 'failed': failed, 'unknown': res.unknown, 'stats': res.stats, 'witness': res.paths > 0,
          'samples': [{'metric': 'FixedSizeSample', 'max_size': max_size, 'reviewed counts per shard': list(shards), 'paths': res.paths}]}


def z3b(b):
  import z3
  return z3.BoolVal(bool(b))


def worker(job):
  if job[0] == 'FixedSizeSample':
    return fss_worker(job)
  name, n, comp, tier, seed = job
  spec = _spec(name, tier)
  mods = metric_specs.modules_of(spec)
  build = make_build(spec, n, comp)
  def scn(c):
    with symx.patched(*mods):
      out = build(c)
    claims = [('split==whole', symx.eq_claim(out['split'], out['whole']))]
    if 'rows_whole' in out:
      claims.append(('row-values-independent-of-batch', symx.eq_claim(out['rows_split'], out['rows_whole'])))
    return claims
  res = symx.explore(scn, max_paths=4000 if tier == 'quick' else 40000, timeout_s=240 if tier == 'quick' else 3000)
  failed = []
  for claim, values, prefix in res.failed[:5]:
    try:
      out = srun.run_concrete(build, dict(values))
      a, b = ('rows_split', 'rows_whole') if claim.startswith('row-') else ('split', 'whole')
      ok = symx.concrete_close(out[a], out[b])
      failed.append({'claim': claim, 'values': values, 'reproduced': not ok, 'detail': f'{a}={out[a]!r} {b}={out[b]!r}'[:500]})
    except Exception as e:  # pylint: disable=broad-exception-caught
      failed.append({'claim': claim, 'values': values, 'reproduced': False, 'detail': f'replay raised {type(e).__name__}: {e}'})
  # translator validation: facade with constant proxies vs real numpy on random inputs
  tv = {'runs': 0, 'agree': 0, 'disagreements': []}
  rng = random.Random(seed * 7919 + hash(name) % 1000)
  for _ in range(2):
    vals = {}
    try:
      sym = srun.run_const_symbolic(build, vals, mods, rng=rng)
      con = srun.run_concrete(build, dict(vals))
      tv['runs'] += 1
      if all(symx.concrete_close(sym[k], con[k]) for k in con):
        tv['agree'] += 1
      else:
        tv['disagreements'].append({'values': vals, 'facade': repr(sym)[:200], 'numpy': repr(con)[:200]})
    except symx.Unsupported:
      pass
    except Exception as e:  # pylint: disable=broad-exception-caught
      tv['runs'] += 1
      tv['disagreements'].append({'values': vals, 'error': f'{type(e).__name__}: {e}'})
  return {'job': [name, n, comp], 'paths': res.paths, 'cut': res.cut, 'cut_reasons': res.cut_reasons, 'claims': res.claims,
          'discharged': res.discharged, 'failed': failed, 'unknown': res.unknown, 'stats': res.stats, 'tv': tv,
          'witness': res.paths > 0,
          'samples': [{'metric': name, 'rows': n, 'composition(shards of batch sizes)': comp, 'paths': res.paths,
                       'claims_proved_unsat': res.discharged, 'z3_queries': res.stats['queries']}]}


def replay(data):
  """./run.py C01 --replay FILE : re-runs the recorded composition on the recorded values with real numpy on the current /repo."""
  import ast
  job = ast.literal_eval(data['job']) if isinstance(data['job'], str) else data['job']
  values = ast.literal_eval(data['values']) if isinstance(data['values'], str) else data['values']
  if job[0] == 'FixedSizeSample':
    print('FixedSizeSample counterexamples depend on the RNG stub; re-run ./run.py C01 --only FixedSizeSample'); return 2
  name, n, comp = job
  spec = _spec(name, data.get('tier', 'quick'))
  out = srun.run_concrete(make_build(spec, n, comp), dict(values))
  a, b = ('rows_split', 'rows_whole') if data['claim'].startswith('row-') else ('split', 'whole')
  ok = symx.concrete_close(out[a], out[b])
  print(f'{a}={out[a]!r}\n{b}={out[b]!r}'[:1500])
  print('NOT-REPRODUCED' if ok else 'REPRODUCED')
  return 0 if ok else 1


def classify(r, f):
  name = r['job'][0]
  if name == 'TopKRetrievalRagged':
    # known finding: k_list is truncated to the longest ranking *of the batch* (rows of different prediction lengths)
    return 'TopKRetrieval-klist-truncated-to-batch-max-prediction-length'
  return f"{name}:{f['claim']}"


def run(tier):
  rep = common.Report('C01', tier, 'other',
                      'Bounded symbolic execution of the real metric code (symx: z3 Real/Int/Bool proxies in object numpy arrays, numpy facade, '
                      'DFS over data-dependent branches with z3 feasibility checks). For every composition of n rows into shards and batches and every '
                      'feasible path, z3 proves unsat(path-condition AND result(split) != result(whole)). Models are replayed concretely with real numpy '
                      'before being reported. Floats are idealised as reals + explicit NaN case split (the property is "up to rounding").')
  n = 3 if tier == 'quick' else 4
  specs = metric_specs.specs(tier)
  for s in specs:
    SPECS[s.name] = s
  only = os.environ.get('VF_ONLY')
  jobs = []
  for s in specs:
    if only and only not in s.name:
      continue
    ns = n
    if s.max_comps and tier != 'quick':
      ns = 3        # word-choice specs (TopKWordNGrams): 4 texts exceed the 40000-path budget; thorough = all compositions of 3 texts
    comps = compositions(ns, 3)
    if s.max_comps and tier == 'quick':
      # diverse fixed subset: all-separate shards, 2+1, batches inside a shard, empty shard in the middle
      pref = [[[1]] * n, [[n - 1], [1]], [[1] * (n - 1), [1]], [[1], [], [n - 1]]]
      comps = [c for c in pref if c in comps][:s.max_comps]
    for comp in comps:
      jobs.append((s.name, ns, comp, tier, common.seed()))
  rep.bounds(rows=n, max_shards=3, compositions=len(compositions(n, 3)), metrics=[s.name for s in specs],
             label_domain='{0,1,2}', note='every composition of the rows into <=3 shards x batches, incl. empty shards; NaN pattern decided per element (2^n case split) for NaN-capable metrics')
  rep.outside('floating-point rounding (reals are exact)', '+-inf intermediate values (paths cut and counted in paths_cut_outside_model)',
              'text metrics over arbitrary strings (covered only for texts of <=3 solver-chosen words over a 3-word vocabulary, plus one wide spec with 10 fixed words and 2 solver-chosen words per text; words chosen by symbolic ints that are concretised per path)', 'FixedSizeSample.add (Algorithm L needs exp/log/floor of RNG draws); its merge IS covered with directly constructed reservoirs and a nondeterministic RNG stub',
              'row counts beyond the bound', 'empty batches passed to add() (documented as non-vacant input)')
  rep.assume('numpy facade (vf/symx.py NpFacade) is equivalent to numpy on the calls made - validated per job against real numpy on random constants (translator_validation)',
             'z3 sound for QF_NRA/LIA', 'sqrt/log are uninterpreted with sign/square axioms')
  from ml_metrics._src.aggregates import rolling_stats as rs, classification as cl, retrieval as rt, base, utils as au
  from ml_metrics._src.utils import math_utils as mu
  rep.encoded(base.CallableMetric.add, base.MergeableMetricAggFn.merge_states, rs.Mean.new, rs.Mean.merge, rs.MeanAndVariance.new, rs.MeanAndVariance.merge,
              rs.MinMaxAndCount.add, rs.MinMaxAndCount.merge, rs.Histogram.new, rs.Histogram.merge, rs.Counter.merge, rs.UnboundedSampler.merge,
              rs.ValueAccumulator.merge, rs._R2TjurBase.add, rs._R2TjurBase.merge, rs.RRegression.add, rs.RRegression.merge,
              rs.SymmetricPredictionDifference.add, au.MeanState.merge, au.TupleMeanState.merge, cl._indicator_confusion_matrix,
              cl._multiclass_confusion_matrix, cl._topk_confusion_matrix, cl.ConfusionMatrixAggFn.update_state, cl.ConfusionMatrixAggFn.merge_states,
              cl.SamplewiseClassification.add, cl.SamplewiseClassification.merge, rt.TopKRetrieval.add, rt.TopKRetrieval.merge, rt.TopKRetrieval.result,
              mu.safe_divide, mu.nanadd, mu.where)
  if not only or only in 'FixedSizeSample':
    for max_size, shards in ((3, (2, 2)), (3, (2, 2, 1)), (3, (5, 1)), (2, (0, 2)), (3, (3, 4)), (3, (1, 0, 1))):
      jobs.append(('FixedSizeSample', max_size, shards, tier, common.seed()))
  results = srun.run_jobs(worker, jobs)
  srun.absorb(rep, results, classify)
  return rep.finish()
