"""C20 - worker liveness and ownership bookkeeping stays consistent.

Two parts:

(a) ownership under concurrency - engine B (pybmc). The current source of Worker.acquire_by / release / is_available /
    is_locked and WorkerPool._acquire_all / release_all is compiled per thread; two pools (two threads) share the same
    worker objects; the interleaving is a solver variable at every pre-emption point (blocking acquire, Lock.locked(),
    unprotected read/write of _worker_pool). z3 (QF_BV) decides per scenario: whenever a pool was told that it owns a
    worker (acquire_by returned True / the worker is in the list _acquire_all returned), is_locked(pool) holds until that
    pool releases - i.e. no other pool released or took it meanwhile -, no thread releases an unlocked lock, and after
    both pool-level operations returned no worker remains locked. Counterexamples and one passing execution per scenario
    are replayed on the real classes.
    Termination is NOT part of the claim in the *-blocking scenarios: acquire_by(blocking=True) waits for Worker._lock
    while holding Worker._states_lock, which release() needs, so a blocking acquire of a worker owned by another pool can
    never succeed (the model finds the deadlock and it reproduces on the real classes; it is reported in DESIGN.md as an
    observation outside the statement of C20). In these scenarios blocked end states only have to satisfy the safety part.

(b) liveness table under concurrency - engine B. WorkerRegistry.refresh / register / unregister are compiled from source
    (the dict is used with one address: a single Optional[float] slot; heartbeat times are symbolic in 1..9); 2-4 threads
    each perform one operation on the same address from an alive / dead / unknown entry. z3 decides: the final entry is
    the result of SOME sequential order of the operations (so a late refresh never revives a dead worker and never
    moves a newer registered heartbeat backwards), and nobody raises.

(c) liveness table and heartbeat bookkeeping, sequential histories - engine A (CrossHair), see checks/c20_seq.py.
"""
import os

from vf import common, srun
from vf.bmc_check import build, worker, absorb, replay as bmc_replay  # noqa: F401


def scenarios(tier):
  S = []
  def add(name, **kw):
    kw.update(name=name, kind='ownership', pred='c20')
    S.append(kw)
  add('own-acquire-release_all-vs-acquire-release', variant='nonblocking', depths=(20, 30, 40))
  add('own-release_all-vs-acquire-release', variant='cleanup', depths=(20, 30, 40))
  add('own-acquire-release_all-vs-blocking-acquire', variant='blocking', stuck_ok=True, depths=(20, 30, 40))
  add('own-1w-acquire_all-release_all-x2', variant='acquire_all', depths=(20, 30, 40, 50))
  add('own-1w-acquire_all-vs-blocking-acquire_all', variant='acquire_all_blocking', stuck_ok=True, depths=(20, 30, 40, 50))
  def reg(ops, init, **kw):
    S.append(dict(name='reg-' + '+'.join(ops) + '-from-' + init, kind='registry', pred='c20reg', ops=ops, init=init, depths=(10, 20, 30), **kw))
  for init in ('alive', 'dead', 'absent'):
    reg(('refresh', 'unregister'), init)
    reg(('refresh', 'register'), init)
    reg(('refresh', 'refresh'), init)
  reg(('refresh', 'register', 'unregister'), 'alive')
  if tier == 'thorough':
    for init in ('alive', 'dead', 'absent'):
      reg(('refresh', 'refresh', 'unregister'), init)
      reg(('refresh', 'refresh', 'register'), init)
      reg(('refresh', 'register', 'unregister'), init)
      reg(('refresh', 'refresh', 'register', 'unregister'), init)
    add('own-2w-acquire_all-release_all-x2', variant='acquire_all', nworkers=2, depths=(30, 40, 50, 60, 70, 80))
    add('own-2w-acquire_all-vs-blocking-acquire_all', variant='acquire_all_blocking', nworkers=2, stuck_ok=True, depths=(30, 40, 50, 60, 70, 80))
  return S


def run(tier):
  rep = common.Report('C20', tier, 'model_checking',
                      'Part (a): bounded model checking of the real Worker/WorkerPool ownership code (source -> IR -> z3 QF_BV with a symbolic scheduler; '
                      'deadlock / bad-final-state / unwinding queries; replay on the real classes). Part (b): CrossHair over sequential register/refresh/'
                      'unregister/heartbeat histories of the real WorkerRegistry and Worker liveness code.')
  sc = scenarios(tier)
  only = os.environ.get('VF_ONLY')
  jobs = [(s, tier) for s in sc if not only or only in s['name']]
  rep.bounds(scenarios=[dict(s) for s in sc],
             note='two pools (one thread each) sharing 1 worker (2 in the thorough tier); every interleaving at pre-emption points')
  rep.outside('more than two pools / two workers / one thread per pool', 'termination of blocking acquisition (see module docstring)',
              'next_idle_worker / idle_workers / as_completed (need has_capacity / is_alive, i.e. the courier client; their final release is release_all, which is covered)',
              'pre-emption inside a single python-level field access')
  rep.assume('threading.Lock: not owned, non-reentrant; threading.RLock: owned, re-entrant; Lock.locked() is atomic',
             'a context switch between two operations that are both protected by a common lock (static must-lockset analysis) is not observable')
  from ml_metrics._src.chainables import courier_worker as cw
  from ml_metrics._src.utils import courier_utils as cu
  rep.encoded(cu.WorkerRegistry.refresh, cu.WorkerRegistry.register, cu.WorkerRegistry.unregister)
  rep.encoded(cw.Worker.acquire_by, cw.Worker.release, cw.Worker.is_available, cw.Worker.is_locked, cw.WorkerPool._acquire_all, cw.WorkerPool.release_all)
  if jobs:
    results = srun.run_jobs(worker, jobs, nproc=min(len(jobs), common.NCPU))
    absorb(rep, results, 'C20')
  try:
    from checks import c20_seq
  except ImportError:
    c20_seq = None
  if c20_seq is not None and getattr(c20_seq, 'READY', False) and (not only or 'seq' in only or not jobs):
    c20_seq.run_into(rep, tier)
  return rep.finish()


def replay(data):
  if data.get('engine') == 'pybmc':
    return bmc_replay(data)
  from checks import c20_seq
  return c20_seq.replay(data)
