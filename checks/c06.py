"""C06 - distributed runs survive worker timeouts and deaths: no lost or doubled work (task path).

Engine A (CrossHair), generator in checks/c06_seq.py. The real orchestrate.as_completed runs on the real WorkerPool /
Worker / CourierClient / Task / WorkerRegistry over a single-threaded fake `courier` transport with a virtual clock. The
*fault schedule* is the symbolic input: the outcome of the i-th task call of each worker is a symbolic int (ok,
deadline-exceeded, application error, host dies for good, host dies and rejoins) that CrossHair/z3 decides lazily, branch
by branch, when the transport first needs it; "Confirmed over all paths" therefore covers every assignment of outcomes
within the fault budget. No symbolic value reaches library code (the outcome is concrete by the time it is used), so the
solver's part is the exhaustive, feasibility-checked exploration of the schedule tree - this is stated as such in the
evidence; task counts, ignore_failures, max_parallelism, latencies, call_timeout and the clock tick are enumerated by the
generator.

Obligations per configuration: delivery (no result doubled or invented, a normal return misses nothing, while one worker
never died every result arrives exactly once or the application error surfaces), released-on-return, released-on-raise,
no liveness flip between next_idle_worker and submit (thorough), plus reachability witnesses.

NOT claimed (MANIFEST level_note / rep.outside): the shard / generator path (WorkerPool.iterate, async_iterate,
sharded_pipelines_as_iterator): asyncio loop thread + coroutines + result thread over an RPC transport that is not
installed - "every shard state merged exactly once" and "every output batch at least once" are not decided.
"""
from vf import common
from checks import c06_seq


def run(tier):
  rep = common.Report('C06', tier, 'other',
                      'Bounded symbolic execution (CrossHair 0.0.110 / z3) of orchestrate.as_completed on the real worker-pool classes over a fake single-threaded '
                      'transport; the per-call fault schedule is symbolic and explored exhaustively per configuration ("Confirmed over all paths"); counterexamples '
                      'are replayed without tracing. Task path only - the shard/generator path is outside (see outside_bounds).')
  c06_seq.run_into(rep, tier)
  return rep.finish()


def replay(data):
  return c06_seq.replay(data)
