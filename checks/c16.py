"""C16 - fault-free distributed execution equals in-process execution: FINAL CLAUSE ONLY.

"If fewer shard states arrive than expected the merge reports an error instead of returning a partial aggregate."

Engine A: CrossHair executes the real TransformRunner.merge_states / ChainedRunner.merge_states (plain and
RunnerMode.AGGREGATE runners, the ones the orchestration merges with), create_state / update_state / get_result with a
symbolic number of arriving states m, a symbolic strict_states_cnt c and symbolic state contents:
  raises ValueError  IFF  c != 0 and m != c;  otherwise the result is the FULL merge (every arriving state folded in
  exactly once: sum and count equal the sum over the states), never a partial one.
Plus: the merged aggregate of k <= 3 (thorough 4) shard states of a symbolic source equals the single-process aggregate
(shared with C03), including SLICED aggregates whose per-slice states exist only in the shards that saw the slice value.
Everything else of C16 (worker pool, remote queues, asyncio) is outside: not encodable.
"""
import os

from checks import c03
from vf import common, xh

PRELUDE = '''
# ---------------------------------------------------------------- C16 specific helpers
def _pick(x, lo, hi):
  """Concrete value of a bounded symbolic int through ordinary branches (one solver path per value): the error message
  of merge_states formats strict_states_cnt, and formatting a symbolic int makes CrossHair enumerate realizations."""
  for v in range(lo, hi + 1):
    if x == v: return v
  raise AssertionError('outside the precondition')

def _merge_outcome(runner, states, c, as_iter):
  try:
    merged = runner.merge_states(iter(states) if as_iter else states, strict_states_cnt=c) if c is not None else (
        runner.merge_states(iter(states) if as_iter else states))
  except ValueError:
    return 'ValueError', None
  return 'ok', merged

def _srec(n, off, r, thr, readahead=0):
  """Records of two rows each with a slice feature per row: row 0 sliced by parity of the element, row 1 by a threshold
  (clustered along the source, so that the first shard misses the later slice value). Aggregated column v is concrete."""
  def f(i):
    x = off + i
    return {'g': ['p' if x % 2 == r else 'q', 'lo' if x < thr else 'hi'], 'v': [1, 10]}
  seq = Seq(n, f)
  if readahead:
    return io.SequenceDataSource(iter_utils.MergedSequences([seq], max_batch_size=readahead))
  return io.SequenceDataSource(seq)
'''


# Suspected defect (reported, replayed concretely): ChainedRunner.get_result over a merged state that holds keys of two
# aggregating stages raises KeyError (TransformRunner.get_result does not filter foreign keys). Enable after the decision
# "fix" (obligation must then be confirmed) or "known finding" (signature below goes to known_findings.json).
WITH_TWO_STAGE_GET_RESULT = os.environ.get('VF_C16_TWO_STAGE_GET_RESULT', '1') == '1'       # defect repaired in /repo (dcca355): obligation always on


def gen(mmax, vrange, strict_two_stage, shard, sliced_ks, nmax_sliced):
  F = xh.fn
  s = [c03.gen(**shard, wits=('shard',)), PRELUDE]
  A = s.append
  vals = ', '.join(f'v{j}: int' for j in range(mmax))
  vlist = '[' + ', '.join(f'v{j}' for j in range(mmax)) + ']'
  vpre = ' and '.join(f'{vrange[0]} <= v{j} <= {vrange[1]}' for j in range(mmax))
  pre = f'0 <= m <= {mmax} and 0 <= c <= {mmax} and {vpre}'
  # ---- TransformRunner.merge_states: m arriving states, strict_states_cnt = c --------------------------
  for mode in ('plain', 'aggregate'):
    mk = 't.make()' if mode == 'plain' else 't.make(mode=transform.RunnerMode.AGGREGATE)'
    A(F(f'ob_strict_runner_{mode}', f'm: int, c: int, as_iter: bool, {vals}', pre, f"""
m = _pick(m, 0, {mmax}); c = _pick(c, 0, {mmax})
vals = {vlist}
with _untraced():
  t = T.new().agg(SumAgg(), output_keys='s')
rr = {mk}.named_aggs['']                      # the TransformRunner
states = []
for j in range(m):
  st = rr.update_state(rr.create_state(), vals[j])
  if j % 2: st = rr.update_state(st, vals[j] + 1)     # states of different weight: count 1 or 2
  states.append(st)
total = sum(vals[:m]) + sum(vals[j] + 1 for j in range(m) if j % 2)
count = m + m // 2
how, merged = _merge_outcome(rr, states, c, as_iter)
must_raise = c != 0 and m != c
if must_raise or how != 'ok':
  return how == ('ValueError' if must_raise else 'ok')
if m == 0:
  return len(merged) == 0
return _res(rr.get_result(merged)) == {{'s': (total, count)}} and len(merged) == 1"""))
  # default argument: no strict count -> never raises, still the full merge
  A(F('ob_nostrict_runner', f'm: int, as_iter: bool, {vals}', f'0 <= m <= {mmax} and {vpre}', f"""
m = _pick(m, 0, {mmax})
vals = {vlist}
with _untraced():
  t = T.new().agg(SumAgg(), output_keys='s')
rr = t.make(mode=transform.RunnerMode.AGGREGATE).named_aggs['']
states = [rr.update_state(rr.create_state(), vals[j]) for j in range(m)]
how, merged = _merge_outcome(rr, states, None, as_iter)
if how != 'ok': return False
if m == 0: return len(merged) == 0
return _res(rr.get_result(merged)) == {{'s': (sum(vals[:m]), m)}}"""))
  # ---- ChainedRunner.merge_states -------------------------------------------------------------------------
  for mode in ('plain', 'aggregate'):
    mk = 't.make()' if mode == 'plain' else 't.make(mode=transform.RunnerMode.AGGREGATE)'
    A(F(f'ob_strict_chained_{mode}', f'm: int, c: int, as_iter: bool, {vals}', pre, f"""
m = _pick(m, 0, {mmax}); c = _pick(c, 0, {mmax})
vals = {vlist}
with _untraced():
  t = T.new().agg(SumAgg(), output_keys='s')
r = {mk}                                       # the ChainedRunner
states = [r.update_state(r.create_state(), vals[j]) for j in range(m)]
how, merged = _merge_outcome(r, states, c, as_iter)
must_raise = c != 0 and m != c
if must_raise or how != 'ok':
  return how == ('ValueError' if must_raise else 'ok')
if m == 0:
  return len(merged) == 0
return _res(r.get_result(merged)) == {{'s': (sum(vals[:m]), m)}} and len(merged) == 1"""))
  if strict_two_stage:
    # two named stages with one aggregate each: every runner folds its own keys of every arriving state
    A(F('ob_strict_chained_two_stages', f'm: int, c: int, as_iter: bool, {vals}', pre, f"""
m = _pick(m, 0, {mmax}); c = _pick(c, 0, {mmax})
vals = {vlist}
with _untraced():
  a = T.new(name='a').apply(lambda x: x + 1).agg(SumAgg(), output_keys='sa')
  b = T.new(name='b').apply(lambda x: x * 2).agg(SumAgg(), output_keys='sb')
  t = a.chain(b)
r = t.make(mode=transform.RunnerMode.AGGREGATE)
pa, pb = r.named_aggs['a'], r.named_aggs['b']
states = []
for j in range(m):       # a worker's state holds the keys of both stages (aggregate-only runners see the rows directly)
  st = dict(pa.update_state(pa.create_state(), vals[j]))
  st.update(pb.update_state(pb.create_state(), vals[j] + 3))
  states.append(st)
how, merged = _merge_outcome(r, states, c, as_iter)      # as the orchestration does: a one-shot generator of worker states
must_raise = c != 0 and m != c
if must_raise or how != 'ok':
  return how == ('ValueError' if must_raise else 'ok')
if m == 0:
  return len(merged) == 0
tot = sum(vals[:m])
# the merged state itself is inspected: ChainedRunner.get_result over a state with keys of two stages is the flagged
# obligation below
got = {{k.metrics: tuple(v) for k, v in merged.items()}}
return got == {{('sa',): (tot, m), ('sb',): (tot + 3 * m, m)}} and len(merged) == 2"""))
  if WITH_TWO_STAGE_GET_RESULT:
    A(F('ob_two_stage_get_result', 'v0: int, v1: int', f'{vrange[0]} <= v0 <= {vrange[1]} and {vrange[0]} <= v1 <= {vrange[1]}', """
with _untraced():
  a = T.new(name='a').apply(lambda x: x + 1).agg(SumAgg(), output_keys='sa')
  b = T.new(name='b').apply(lambda x: x * 2).agg(SumAgg(), output_keys='sb')
  t = a.chain(b)
r = t.make(mode=transform.RunnerMode.AGGREGATE)
pa, pb = r.named_aggs['a'], r.named_aggs['b']
states = []
for v in (v0, v1):
  st = dict(pa.update_state(pa.create_state(), v))
  st.update(pb.update_state(pb.create_state(), v + 3))
  states.append(st)
copies = [{k: list(v) for k, v in st.items()} for st in states]     # the in-place aggregate folds into the first state it is given
merged = r.merge_states(states, strict_states_cnt=2)
merged_it = r.merge_states(iter(copies))     # one-shot iterator, no strict count (orchestrate.py call sites)
want = {'sa': (v0 + v1, 2), 'sb': (v0 + v1 + 6, 2)}
return _res(r.get_result(merged)) == want and _res(r.get_result(merged_it)) == want"""))
  A(F('wit_strict_raises', 'm: int, c: int, v0: int', f'0 <= m <= {mmax} and 0 <= c <= {mmax} and 0 <= v0 <= 1', """
m = _pick(m, 0, 4); c = _pick(c, 0, 4)
t = T.new().agg(SumAgg(), output_keys='s')
rr = t.make().named_aggs['']
states = [rr.update_state(rr.create_state(), v0) for j in range(m)]
how, merged = _merge_outcome(rr, states, c, False)
return not (how == 'ValueError' and 0 < m < c)"""))
  A(F('wit_strict_full', 'm: int, c: int, v0: int', f'0 <= m <= {mmax} and 0 <= c <= {mmax} and 0 <= v0 <= 1', """
m = _pick(m, 0, 4); c = _pick(c, 0, 4)
t = T.new().agg(SumAgg(), output_keys='s')
rr = t.make().named_aggs['']
states = [rr.update_state(rr.create_state(), v0) for j in range(m)]
how, merged = _merge_outcome(rr, states, c, False)
return not (how == 'ok' and m == c == 3 and rr.get_result(merged)['s'][1] == 3)"""))
  # ---- sliced aggregates: per-slice states exist only where the slice value was seen ------------------------
  for k in sliced_ks:
    body = [f"""
ds = _srec(n, off, r, thr)
with _untraced():
  t = T.new().data_source(ds).agg(SumAgg(), input_keys='v', output_keys='s').add_slice('g')
want = _run(t)
states = []"""]
    for i in range(k):
      body.append(f'_, _, st = _run(t, shard=io.ShardConfig({i}, {k})); states.append(st)')
    body.append(f"""
ragg = t.make(mode=transform.RunnerMode.AGGREGATE)
m1 = ragg.merge_states(_cps(states), strict_states_cnt={k})
rr = t.make().named_aggs['']
m2 = rr.merge_states(iter(_cps(states)), strict_states_cnt={k})
w = _res(want[1])
nkeys = len(want[2])          # overall + one per slice value that occurs anywhere in the source
return (w is not None and len(w) == nkeys and len(m1) == nkeys and len(m2) == nkeys
        and _res(ragg.get_result(m1)) == w and _res(rr.get_result(m2)) == w)""")
    A(F(f'ob_sliced_k{k}', 'n: int, off: int, r: int, thr: int', f'0 <= n <= {nmax_sliced} and -2 <= off <= 2 and 0 <= r <= 1 and -3 <= thr <= 8',
        '\n'.join(body)))
  A(F('wit_sliced', 'n: int, off: int, r: int, thr: int', f'0 <= n <= {max(nmax_sliced, 3)} and -2 <= off <= 2 and 0 <= r <= 1 and -3 <= thr <= 8', """
t = T.new().data_source(_srec(n, off, r, thr)).agg(SumAgg(), input_keys='v', output_keys='s').add_slice('g')
_, _, s0 = _run(t, shard=io.ShardConfig(0, 2))
_, _, s1 = _run(t, shard=io.ShardConfig(1, 2))
m = t.make().merge_states([s0, s1], strict_states_cnt=2)
return not (len(s0) == 3 and len(s1) == 3 and len(m) == 5)"""))
  return '\n'.join(s)


def params_for(tier):
  I = lambda *ops: ('i', tuple(ops))
  D = lambda *ops: ('d', tuple(ops))
  none = dict(seqs=[], seqs3way=[], readahead_plan=[], shardchain_plan=[], thread_seqs=[])
  if tier == 'quick':
    shard = dict(nmax=6, nmax_g=5, nmax_filter=4, nmax_ra=7, shard_plan=[(*I('A'), [1, 2, 3]), (*I('G'), [3]), (*D('S', 'P'), [2])], **none)
    return dict(mmax=4, vrange=(-5, 5), strict_two_stage=True, shard=shard, sliced_ks=[2, 3], nmax_sliced=3)
  shard = dict(nmax=8, nmax_g=6, nmax_filter=5, nmax_ra=9, **{**none, 'readahead_plan': [(*I('A'), [3])]},
               shard_plan=[(*I('A'), [1, 2, 3, 4]), (*I('G'), [2, 3, 4]), (*I('A', 'F'), [3, 4]), (*I('G', 'B2', 'A'), [2]),
                           (*D('S', 'P'), [2, 3, 4]), (*D('P', 'S', 'H'), [3])])
  return dict(mmax=4, vrange=(-50, 50), strict_two_stage=True, shard=shard, sliced_ks=[2, 3, 4], nmax_sliced=5)


def classify(name, call):
  return name


NOT_ENCODABLE = 'asyncio loop thread + courier transport not present: not encodable'


def run(tier):
  rep = common.Report('C16', tier, 'other',
                      'FINAL CLAUSE ONLY. Bounded symbolic execution (CrossHair/z3) of the real merge_states of TransformRunner and ChainedRunner '
                      '(plain and aggregate-only runners) with a symbolic number of arriving states, symbolic strict_states_cnt and symbolic state '
                      'contents: error iff the counts differ, otherwise the full merge; merged shard aggregates (incl. sliced ones) equal the '
                      'single-process aggregate; "discharged" = "Confirmed over all paths"; counterexamples are replayed concretely. The '
                      'distributed-equals-in-process clauses themselves are outside (see outside_claim).')
  from ml_metrics._src.chainables import io, transform, tree_fns
  rep.encoded(transform.TransformRunner.merge_states, transform.ChainedRunner.merge_states, transform.TransformRunner.create_state,
              transform.TransformRunner.update_state, transform.TransformRunner.get_result, transform.ChainedRunner.update_state,
              transform.ChainedRunner.get_result, transform.ChainedRunner.named_aggs, transform.TransformRunner.from_transform,
              tree_fns.TreeAggregateFn.merge_states, tree_fns.Slicer.iterate_and_slice, io.SequenceDataSource.shard)
  p = params_for(tier)
  timeout = 150 if tier == 'quick' else 1200
  rep.bounds(arriving_states_m=[0, p['mmax']], strict_states_cnt_c=[0, p['mmax']], state_values=p['vrange'],
             merged_equals_single_process={c03.tag(f, o): ks for f, o, ks in p['shard']['shard_plan']},
             source_length=dict(nmax=p['shard']['nmax'], with_threshold_filter=p['shard']['nmax_g'], with_two_filters=p['shard']['nmax_filter']),
             sliced_shard_counts=p['sliced_ks'], sliced_source_length=p['nmax_sliced'], per_condition_timeout_s=timeout,
             note='m and c are symbolic ints made concrete through solver branches (one path per value) because the error message formats '
                  'them; states are passed as a list and as a one-shot iterator (as the orchestration does); operator letters as in C03')
  rep.outside(*[f'{what}: {NOT_ENCODABLE}' for what in (
      'sharded_pipelines_as_iterator over a WorkerPool == in-process run (same multiset of batches, same aggregate)',
      'run_pipeline_interleaved / _async_run_single_stage: stages fed through RemoteIteratorQueue == in-process run',
      'exactly one final AggregateResult delivered through result_queue / StopIteration.value of the worker generators',
      'any number of workers, iterate_batch_size and buffer sizes of remote iteration')],
      'the orchestration call sites (orchestrate.py: compute_result and the stage-end merge) call merge_states WITHOUT strict_states_cnt; '
      'whether the expected count is enforced end to end is part of the non-encodable worker-pool layer',
      'aggregates other than the in-place integer sum/count stand-in (metric algebra: C01/C11)',
      'sliced aggregates over symbolic aggregated values (masks are applied through numpy: the aggregated column is concrete, '
      'the slice value of every row is decided by symbolic branches)')
  rep.assume('types.is_recoverable re-expressed with try/getattr instead of hasattr during symbolic runs (CrossHair limitation; same semantics)',
             'absl logging and time.time in transform.py/iter_utils.py/io.py replaced by no-ops during symbolic runs (stubs; they only feed log messages)',
             'fluent builder calls run with CrossHair opcode tracing switched off (they touch no symbolic value); make(), update_state, merge_states, get_result are traced',
             "CrossHair's optional probabilistic short-circuiting of contract-bearing helper calls (its own hash()/repr() models) is switched "
             'off during symbolic runs: bodies are always interpreted (exact semantics; avoids symbolic hashes reaching C-level dict hashing)',
             'shard states are copied (per-key list copy) before each merge: the in-place aggregate folds into the first state',
             'CrossHair/z3 sound for int/list/dict/dataclass semantics; numpy mask code of the slicer runs natively on concrete values')
  only = os.environ.get('VF_ONLY')
  xh.run_module(rep, gen(**p), 'c16_h', timeout, classify=classify, only=(lambda n: only in n) if only else None)
  return rep.finish()
