"""C03 - results do not depend on the execution strategy (decidable part: fusing/chaining/staging, sharding + merge).

Engine A: CrossHair executes the real TreeTransform builder (apply/filter/assign/batch/agg/chain/_chain_and_fuse/
named_transforms/make), TransformRunner / ChainedRunner (iterate, merge_states, get_result), _RunnerIterator,
_ChainedRunnerIterator and SequenceDataSource.shard/from_state/_RangeIterator over an abstract source of symbolic
length and symbolic contents. Compared strategies of one and the same operator sequence:
  (a) one fused transform == chain of NAMED transforms == same-name chain (fused by the library) == named_transforms()
      run stage by stage (outputs of one stage fed to iterate() of the next),
  (b) whole source == k shards run separately (make(shard=ShardConfig(i, k)) / data_source.shard(i, k)), emitted
      batches concatenated in shard order, aggregation states merged by ChainedRunner.merge_states /
      TransformRunner.merge_states (with and without strict_states_cnt=k),
  (c) num_threads=0 explicit == default.
Operator sequences, split points of the chain and the shard count are enumerated by the generator (the shard loop is
unrolled per k); source length, data offset, operator constants, parities and thresholds are symbolic.
Threaded execution (num_threads > 0, iterate_in_process) is outside: its queue layer is C13/C04 (engine B).
"""
import itertools
import os

from vf import common, xh

PRELUDE = '''
from ml_metrics._src.chainables import io
from ml_metrics._src.chainables import transform
from ml_metrics._src.aggregates import base as agg_base
from ml_metrics._src.utils import iter_utils
_vf_silence(transform, iter_utils, io)
from ml_metrics._src import types as _types
def _is_recoverable(obj):
  # same meaning as the original `obj_has_method(obj, 'from_state') and hasattr(obj, 'state')`; CrossHair's
  # hasattr() evaluates the `state` property outside tracing.
  if not _types.obj_has_method(obj, 'from_state'): return False
  try:
    obj.state
    return True
  except AttributeError:
    return False
if _VF_SYMBOLIC:
  _types.is_recoverable = _is_recoverable
  # CrossHair may "short-circuit" calls of contract-bearing helpers - in practice its own models of hash()/repr() -
  # by forking and returning a fresh symbolic value (30 % branch). A symbolic hash handed to the C-level dict/tuple
  # hashing of the MetricKey / SliceKey dataclasses raises a spurious TypeError, and every call doubles the paths.
  # Always interpreting the function body is the exact semantics, so the optional skipping is switched off.
  import crosshair.core as _cc
  _orig_consider_shortcircuit = _cc.consider_shortcircuit
  def _no_shortcircuit(fn, sig, bound, subconditions, allow_interpretation):
    if allow_interpretation: return None
    return _orig_consider_shortcircuit(fn, sig, bound, subconditions, allow_interpretation)
  _cc.consider_shortcircuit = _no_shortcircuit
  from crosshair.tracers import NoTracing as _untraced
  from crosshair.util import NotDeterministic as _VfNotDet
  _vf_exc0 = _vf_exc
  def _vf_exc(name, e):
    if isinstance(e, _VfNotDet): raise e      # CrossHair's own signal, not an outcome of the code under test
    return _vf_exc0(name, e)
else:
  import contextlib
  _untraced = contextlib.nullcontext
T = transform.TreeTransform
# Tracing discipline: the fluent builder calls (T.new()...apply/filter/assign/batch/agg/chain/named_transforms) see no
# symbolic value - lambdas only capture them - so they run natively inside `with _untraced():` (the real code, executed by
# the plain interpreter; an accidental touch of a symbolic value there raises CrossHairInternal = inconclusive). The data
# source, make(), iterate(), iteration, merge_states and get_result run under CrossHair's opcode tracing.

class Seq:
  """Abstract random-access source: element i is f(i); n may be symbolic."""
  def __init__(self, n, f): self.n = n; self.f = f
  def __len__(self): return self.n
  def __getitem__(self, i):
    if isinstance(i, slice):
      start, stop, step = i.indices(self.n)
      return [self.f(j) for j in range(start, stop, step)]
    if i < 0: i += self.n
    if not 0 <= i < self.n: raise IndexError('seq index out of range')
    return self.f(i)

def _isrc(n, off, readahead=0):
  """ints off, off+1, ...; readahead != 0 lowers the random-access read-ahead of MergedSequences (default 64)."""
  seq = Seq(n, lambda i: off + i)
  if readahead:
    return io.SequenceDataSource(iter_utils.MergedSequences([seq], max_batch_size=readahead))
  return io.SequenceDataSource(seq)

def _dsrc(n, off, readahead=0):
  seq = Seq(n, lambda i: {'a': off + i})
  if readahead:
    return io.SequenceDataSource(iter_utils.MergedSequences([seq], max_batch_size=readahead))
  return io.SequenceDataSource(seq)

class SumAgg(agg_base.AggregateFn):
  """In-place integer aggregate (like every MergeableMetric.as_agg_fn()): state = [sum, count] over rows."""
  def create_state(self): return [0, 0]
  def update_state(self, state, x):
    if isinstance(x, (list, tuple)) or hasattr(x, '__array__'):
      for v in x:
        state[0] += v; state[1] += 1
    else:
      state[0] += x; state[1] += 1
    return state
  def merge_states(self, states):
    states = list(states); r = states[0]
    for s in states[1:]:
      r[0] += s[0]; r[1] += s[1]
    return r
  def get_result(self, state): return (state[0], state[1])

# operator bodies: work on a row (int) and on a batch of rows (list) alike
def _add(x, c): return [v + c for v in x] if isinstance(x, list) else x + c
def _par(x, r): return (x[0] if isinstance(x, list) else x) % 2 == r
def _ge(x, t): return (x[0] if isinstance(x, list) else x) >= t

def _run(t, shard=None, src=None):
  r = t.make(shard=shard) if shard is not None else t.make()
  it = r.iterate(src) if src is not None else r.iterate()
  out = list(it)
  return out, it.agg_result, it.agg_state

def _staged(t):
  """named_transforms() run one stage after the other, the outputs of a stage are the data source of the next."""
  src, res, names = None, None, []
  for name, st in t.named_transforms().items():
    it = st.make().iterate(src)
    src = list(it)
    names.append(name)
    if it.agg_result is not None:
      res = it.agg_result
  return src, res, names

def _rows(out):
  """Row-level view of emitted batches (a batch is a list of rows, or a dict of equally long columns)."""
  rows = []
  for b in out:
    if isinstance(b, list): rows += b
    elif isinstance(b, dict) and b and all(isinstance(v, list) for v in b.values()):
      ks = list(b)
      rows += [tuple((k, b[k][j]) for k in ks) for j in range(len(b[ks[0]]))]
    else: rows.append(b)
  return rows

def _cps(states):
  """Private copies of shard states: the in-place aggregate folds into the first state it is given."""
  return [{k: list(v) for k, v in s.items()} for s in states]

def _res(res):
  """Aggregate result as {key: (sum, count)}: TransformRunner.get_result gives a TreeMapView of tuples, the chained
  variants a dict of lists - same values."""
  if res is None: return None
  if not isinstance(res, dict): res = res.data
  return {k: tuple(v) for k, v in res.items()}
'''

# ---- operator grammar -------------------------------------------------------------------------------
# int rows : A apply(x + c)   F filter(x % 2 == r)   G filter(x >= t)   B<b> batch(b)
# dict rows: S assign(next key = previous key + c)   P filter(a % 2 == r, input_keys='a')   H filter(last key >= t)
C_RANGE, T_RANGE, OFF_RANGE = (-3, 3), (-6, 12), (-4, 4)


def build(fam, ops):
  """-> (code fragment per operator, [(param, lo, hi)], aggregate code, has_batch, rowwise)."""
  frags, params, last = [], [], 'a'
  batched = False
  rowwise = True            # False: an operator after a batch looks at batch composition (first row of the batch)
  for j, op in enumerate(ops):
    if op == 'A':
      frags.append(f'.apply(lambda x: _add(x, c{j}))'); params.append((f'c{j}', *C_RANGE))
    elif op == 'F':
      frags.append(f'.filter(lambda x: _par(x, r{j}))'); params.append((f'r{j}', 0, 1)); rowwise &= not batched
    elif op == 'G':
      frags.append(f'.filter(lambda x: _ge(x, t{j}))'); params.append((f't{j}', *T_RANGE)); rowwise &= not batched
    elif op[0] == 'B':
      frags.append(f'.batch({int(op[1:])})'); batched = True
    elif op == 'S':
      new = chr(ord(last) + 1)
      frags.append(f".assign({new!r}, fn=lambda v: v + c{j}, input_keys={last!r})"); params.append((f'c{j}', *C_RANGE))
      last = new
    elif op == 'P':
      frags.append(f".filter(lambda v: v % 2 == r{j}, input_keys='a')"); params.append((f'r{j}', 0, 1))
    elif op == 'H':
      frags.append(f".filter(lambda v: v >= t{j}, input_keys={last!r})"); params.append((f't{j}', *T_RANGE))
    else:
      raise ValueError(op)
  agg = ".agg(SumAgg(), output_keys='s')" if fam == 'i' else f".agg(SumAgg(), input_keys={last!r}, output_keys='s')"
  return frags, params, agg, batched, rowwise


def tag(fam, ops):
  return ('d' if fam == 'd' else '') + ''.join(ops)


def sig(params, nmax, extra=()):
  ps = [('n', 0, nmax), ('off', *OFF_RANGE)] + list(params) + list(extra)
  return ', '.join(f'{p}: int' for p, _, _ in ps), ' and '.join(f'{lo} <= {p} <= {hi}' for p, lo, hi in ps)


def splits_of(nops, ways):
  """Cut positions 0..nops (stage a may hold only the data source, stage b only the aggregate)."""
  return [c for c in itertools.combinations_with_replacement(range(nops + 1), ways - 1)]


def stage_code(frags, agg, cuts, names, threads='', src='ds'):
  """Code building a chain of len(cuts)+1 transforms; names[i] = name of stage i ('' everywhere = library fuses)."""
  bounds = [0] + list(cuts) + [len(frags)]
  lines = []
  for i in range(len(bounds) - 1):
    body = ''.join(frags[bounds[i]:bounds[i + 1]])
    head = f'T.new(name={names[i]!r}{threads})'
    if i == 0: head += f'.data_source({src})'
    if i == len(bounds) - 2: body += agg
    lines.append(f'  st{i} = {head}{body}')
  lines.append('  ch = st0' + ''.join(f'.chain(st{i})' for i in range(1, len(bounds) - 1)))
  return '\n'.join(lines)


def cut_groups(ops):
  """2-way cut positions 0..len(ops), grouped so that one obligation stays below ~100 s CPU."""
  cuts = [(c,) for c in range(len(ops) + 1)]
  if len(ops) <= 2 and not any(o in 'GH' for o in ops):
    return [cuts]
  return [cuts[i:i + 2] for i in range(0, len(cuts), 2)]


def gen(nmax, nmax_g, nmax_filter, seqs, seqs3way, shard_plan, readahead_plan, nmax_ra, shardchain_plan, thread_seqs, wits=('chain', 'shard')):
  F = xh.fn
  s = [PRELUDE]
  A = s.append

  def nb(ops):   # every filter multiplies the number of paths (parity: x2, threshold: x(n+1)): smaller length bound
    if sum(o in 'FGPH' for o in ops) >= 2: return nmax_filter
    return nmax_g if any(o in 'GH' for o in ops) else nmax

  def chain_ob(name, fam, ops, plan, with_fuse):
    frags, params, agg, batched, _ = build(fam, ops)
    pa, pre = sig(params, nb(ops))
    body = [f"ds = {'_isrc' if fam == 'i' else '_dsrc'}(n, off)",
            'with _untraced():',
            f"  fused = T.new().data_source(ds){''.join(frags)}{agg}",
            'want = _run(fused)',
            'ok = want[1] is not None']
    for cuts in plan:
      names = [chr(ord('a') + i) for i in range(len(cuts) + 1)]
      body += ['with _untraced():', stage_code(frags, agg, cuts, names),
               'got = _run(ch)',
               's_out, s_res, s_names = _staged(ch)',
               f'ok = ok and got[0] == want[0] and got[1] == want[1] and s_out == want[0] and s_res == want[1] and s_names == {names!r}']
    if with_fuse:      # same name: TreeTransform.chain fuses the stages through _chain_and_fuse
      cut = (len(ops) + 1) // 2
      body += ['with _untraced():', stage_code(frags, agg, (cut,), ['', '']),
               '  nstages = len(ch.named_transforms())',
               'got = _run(ch)',
               'ok = ok and got[0] == want[0] and got[1] == want[1] and nstages == 1']
    body.append('return ok')
    A(F(name, pa, pre, '\n'.join(body)))

  # ---- (a) fused == named chain == same-name chain == stage by stage -----------------------------
  for fam, ops in seqs:
    for gi, group in enumerate(cut_groups(ops)):
      ct = ''.join(str(c[0]) for c in group)
      chain_ob(f'ob_chain_{tag(fam, ops)}_cuts{ct}', fam, ops, group, with_fuse=gi == 0)
    if (fam, ops) in seqs3way:
      three = [c for c in splits_of(len(ops), 3) if c[0] != c[1]]
      for gi in range(0, len(three), 2):
        group = three[gi:gi + 2]
        ct = '_'.join(''.join(str(x) for x in c) for c in group)
        chain_ob(f'ob_chain3_{tag(fam, ops)}_cuts{ct}', fam, ops, group, with_fuse=False)
  # witness: a chain whose filter really drops rows, emits >= 2 batches and aggregates them
  if 'chain' in wits: A(F('wit_chain', 'n: int, off: int, c0: int, r1: int', f'0 <= n <= 4 and -2 <= off <= 2 and -2 <= c0 <= 2 and 0 <= r1 <= 1', """
st0 = T.new(name='a').data_source(_isrc(n, off)).apply(lambda x: _add(x, c0))
st1 = T.new(name='b').filter(lambda x: _par(x, r1)).agg(SumAgg(), output_keys='s')
out, res, _ = _run(st0.chain(st1))
return not (len(out) >= 2 and len(out) < n and res['s'][1] == len(out) and c0 != 0)"""))

  # ---- (b) whole source == k shards + merge_states -------------------------------------------------
  def shard_ob(name, fam, ops, k, readahead, nmx, chain_cut=None):
    frags, params, agg, batched, rowwise = build(fam, ops)
    assert rowwise, f'{ops}: an operator after a batch depends on batch composition; shards legitimately differ'
    pa, pre = sig(params, nmx)
    view = '_rows' if batched else ''
    body = [f"ds = {'_isrc' if fam == 'i' else '_dsrc'}(n, off, {readahead})",
            'with _untraced():',
            f"  t = T.new().data_source(ds){''.join(frags)}{agg}",
            'want = _run(t)', 'outs, states = [], []']
    for i in range(k):
      if chain_cut is None:
        body.append(f'o, _, st = _run(t, shard=io.ShardConfig({i}, {k})); outs += o; states.append(st)')
      else:
        body += [f'dsi = ds.shard({i}, {k})', 'with _untraced():', stage_code(frags, agg, (chain_cut,), ['a', 'b'], src='dsi'),
                 'o, _, st = _run(ch); outs += o; states.append(st)']
    body.append(f"""
ragg = t.make(mode=transform.RunnerMode.AGGREGATE)        # what the orchestration merges with
m1 = ragg.merge_states(_cps(states), strict_states_cnt={k})
rr = t.make().named_aggs['']                              # the TransformRunner itself
m2 = rr.merge_states(iter(_cps(states)), strict_states_cnt={k})
m3 = t.make().merge_states(_cps(states))
w = _res(want[1])
return ({view}(outs) == {view}(want[0]) and w is not None and _res(ragg.get_result(m1)) == w
        and _res(rr.get_result(m2)) == w and _res(t.make().get_result(m3)) == w)""")
    A(F(name, pa, pre, '\n'.join(body)))

  for fam, ops, ks in shard_plan:
    for k in ks:
      shard_ob(f'ob_shard_{tag(fam, ops)}_k{k}', fam, ops, k, 0, nb(ops))
  for fam, ops, ks in readahead_plan:  # read-ahead 2 < shard length: _RangeIterator reads a shard in several chunks
    for k in ks:
      shard_ob(f'ob_shard_readahead2_{tag(fam, ops)}_k{k}', fam, ops, k, 2, nmax_ra)
  for fam, ops, ks in shardchain_plan:  # sharded source feeding a chain of named stages
    for k in ks:
      shard_ob(f'ob_shardchain_{tag(fam, ops)}_k{k}', fam, ops, k, 0, nb(ops), chain_cut=1)
  if 'shard' in wits: A(F('wit_shard_k3', 'n: int, off: int, r0: int', f'0 <= n <= {max(nmax, 6)} and -2 <= off <= 2 and 0 <= r0 <= 1', """
t = T.new().data_source(_isrc(n, off, 2)).filter(lambda x: _par(x, r0)).agg(SumAgg(), output_keys='s')
o0, _, s0 = _run(t, shard=io.ShardConfig(0, 3))
o1, _, s1 = _run(t, shard=io.ShardConfig(1, 3))
o2, _, s2 = _run(t, shard=io.ShardConfig(2, 3))
m = t.make().merge_states([s0, s1, s2], strict_states_cnt=3)
return not (len(o0) >= 1 and len(o1) >= 1 and len(o2) >= 1 and n == 6 and t.make().get_result(m)['s'][1] == 3)"""))

  # ---- (c) num_threads=0 explicit == default ---------------------------------------------------------
  for fam, ops in thread_seqs:
    frags, params, agg, batched, _ = build(fam, ops)
    pa, pre = sig(params, nb(ops))
    cut = len(ops) // 2
    A(F(f'ob_threads0_{tag(fam, ops)}', pa, pre, f"""
ds = {'_isrc' if fam == 'i' else '_dsrc'}(n, off)
with _untraced():
  t_default = T.new().data_source(ds){''.join(frags)}{agg}
  t_zero = T.new(num_threads=0).data_source(ds){''.join(frags)}{agg}
{stage_code(frags, agg, (cut,), ['a', 'b'], threads=', num_threads=0')}
want = _run(t_default)
got = _run(t_zero)
got2 = _run(ch)
return (got[0] == want[0] and got[1] == want[1] and got2[0] == want[0] and got2[1] == want[1] and want[1] is not None
        and transform._DEFAULT_NUM_THREADS == 0)"""))
  return '\n'.join(s)


def _seqs(alphabet, maxlen, ok=lambda ops: True):
  out = []
  for l in range(1, maxlen + 1):
    out += [ops for ops in itertools.product(alphabet, repeat=l) if ok(ops)]
  return out


def _one_batch(ops):
  return sum(o[0] == 'B' for o in ops) <= 1


def params_for(tier):
  I = lambda *ops: ('i', tuple(ops))
  D = lambda *ops: ('d', tuple(ops))
  if tier == 'quick':
    seqs = [I('A'), I('B2'), I('A', 'F'), I('G', 'B2'), I('B2', 'A', 'G'), I('G', 'A', 'F'), D('S', 'P'), D('P', 'S', 'H')]
    return dict(nmax=6, nmax_g=5, nmax_filter=4, seqs=seqs, seqs3way=[I('A', 'F')],
                shard_plan=[(*I('A'), [1, 2, 3]), (*I('A', 'F'), [2, 3]), (*I('G', 'B2', 'A'), [2]), (*D('S', 'P'), [3])],
                readahead_plan=[(*I('A'), [2, 3])], nmax_ra=7, shardchain_plan=[(*I('A', 'F'), [2])],
                thread_seqs=[I('A', 'F')])
  ints = _seqs(['A', 'F', 'G', 'B2'], 2, _one_batch)      # every sequence of <= 2 operators with at most one batch
  ints += [('A', 'F', 'B2'), ('F', 'G', 'A'), ('G', 'A', 'F'), ('B2', 'A', 'G'), ('G', 'B2', 'A'), ('A', 'B2', 'F'), ('A', 'A', 'F'),
           ('F', 'A', 'F'), ('B3', 'A', 'A'), ('A', 'B1', 'G'), ('F', 'B2', 'G'), ('A', 'G', 'B3')]
  dicts = [('S',), ('P',), ('H',), ('S', 'P'), ('P', 'S'), ('S', 'H'), ('H', 'S'), ('S', 'S'), ('P', 'H'),
           ('S', 'P', 'S'), ('P', 'S', 'H'), ('S', 'S', 'H'), ('H', 'P', 'S')]
  seqs = [('i', o) for o in ints] + [('d', o) for o in dicts]
  shard_plan = [(*I('A'), [1, 2, 3, 4]), (*I('F'), [2, 3]), (*I('G'), [2, 4]), (*I('B2'), [2, 3]), (*I('A', 'F'), [2, 3, 4]),
                (*I('G', 'A'), [3]), (*I('A', 'B2'), [2, 4]), (*I('G', 'B2', 'A'), [2, 3]), (*I('F', 'G', 'A'), [3]),
                (*I('A', 'A', 'F'), [4]), (*D('S'), [2, 3]), (*D('S', 'P'), [2, 3, 4]), (*D('P', 'S', 'H'), [3]), (*D('S', 'S', 'H'), [2])]
  return dict(nmax=8, nmax_g=6, nmax_filter=5, seqs=seqs,
              seqs3way=[I('G', 'A', 'F'), I('A', 'F', 'B2'), I('B2', 'A', 'G'), I('F', 'A', 'F'), D('P', 'S', 'H'), D('S', 'P', 'S')],
              shard_plan=shard_plan, readahead_plan=[(*I('A'), [2, 3, 4]), (*I('A', 'F'), [2, 3]), (*D('S'), [3])], nmax_ra=9,
              shardchain_plan=[(*I('A', 'F'), [2, 3]), (*I('G', 'B2'), [2]), (*D('S', 'P'), [3])],
              thread_seqs=[I('A', 'F'), I('B2', 'A'), D('S')])


def classify(name, call):
  return name


OUTSIDE = (
    'num_threads > 0 and iterate_in_process (helper threads + IteratorQueue: whole-program concurrency; the queue / '
    'MultiplexIterator layer is decided by C13/C04 in engine B, the end-to-end threaded pipeline is not encodable)',
    'sources longer than the bounds, in particular shards longer than the default random-access read-ahead of 64 elements '
    '(the multi-chunk read path of _RangeIterator is exercised with the read-ahead lowered to 2 through MergedSequences(max_batch_size=2))',
    'batch() after a leading assign on dict records (builder infers different keys per transform: declared outside in C08 as well)',
    'operators after a batch that look at batch composition are compared for fused/chained runs only: shards legitimately re-group rows',
    'make(shard=...) on a chain of named transforms raises TypeError (the shard is handed to every stage; loud, not a wrong result): '
    'chains are sharded through data_source.shard(i, k)',
    'aggregates other than the in-place integer sum/count stand-in (metric algebra: C01/C11)')


def run(tier):
  rep = common.Report('C03', tier, 'other',
                      'Bounded symbolic execution (CrossHair/z3) of the real builder/runner code: the same operator sequence is run fused, '
                      'as a chain of named stages, stage by stage, over k shards with merged states and with explicit num_threads=0; '
                      'source length, data offset, operator constants, parities and thresholds are symbolic, operator sequences / split '
                      'points / shard counts are enumerated; "discharged" = "Confirmed over all paths"; counterexamples are replayed concretely.')
  from ml_metrics._src.chainables import io, transform
  from ml_metrics._src.utils import iter_utils
  TT = transform.TreeTransform
  rep.encoded(TT.chain, TT._chain_and_fuse, TT.named_transforms, TT.flatten_transform, TT.make, TT.batch, TT.filter, TT.assign,
              transform.TransformRunner.from_transform, transform.TransformRunner.update_state, transform.TransformRunner.merge_states,
              transform.TransformRunner.get_result, transform.TransformRunner._actual_inputs, transform.ChainedRunner.iterate,
              transform.ChainedRunner.merge_states, transform.ChainedRunner.get_result, transform._RunnerIterator.__init__,
              transform._RunnerIterator.__next__, transform._ChainedRunnerIterator.__next__, transform._ChainedRunnerIterator.agg_result,
              io.SequenceDataSource.shard, io.SequenceDataSource.from_state, iter_utils._RangeIterator.__next__,
              iter_utils.MergedSequences.slice, iter_utils.MultiplexIterator.__init__)
  p = params_for(tier)
  timeout = 150 if tier == 'quick' else 1200
  rep.bounds(nmax=p['nmax'], nmax_with_threshold_filter=p['nmax_g'], nmax_with_two_filters=p['nmax_filter'], nmax_readahead2=p['nmax_ra'],
             operator_sequences=[tag(*x) for x in p['seqs']], three_way_splits=[tag(*x) for x in p['seqs3way']],
             sharded_sequences={tag(f, o): ks for f, o, ks in p['shard_plan']},
             sharded_readahead2={tag(f, o): ks for f, o, ks in p['readahead_plan']},
             sharded_chains={tag(f, o): ks for f, o, ks in p['shardchain_plan']}, constants=C_RANGE, thresholds=T_RANGE, data_offset=OFF_RANGE,
             per_condition_timeout_s=timeout,
             note='A apply(x+c) F filter(x%2==r) G filter(x>=t) B<b> batch(b) on int rows; d-prefixed: S assign(next=prev+c) '
                  'P filter(a%2==r) H filter(last>=t) on dict rows; every 2-way cut position 0..len(ops) is a separate obligation')
  rep.outside(*OUTSIDE)
  rep.assume('types.is_recoverable re-expressed with try/getattr instead of hasattr during symbolic runs (CrossHair limitation; same semantics)',
             'absl logging and time.time in transform.py/iter_utils.py/io.py replaced by no-ops during symbolic runs (stubs; they only feed log messages)',
             'fluent builder calls run with CrossHair opcode tracing switched off (crosshair.tracers.NoTracing): they touch no symbolic value, '
             'the real builder code is executed by the plain interpreter; everything from the data source and make() on is traced',
             'shard states are copied (per-key list copy) before each of the three merges: the in-place aggregate folds into the first state',
             "CrossHair's optional probabilistic short-circuiting of contract-bearing helper calls (its own hash()/repr() models) is switched "
             'off during symbolic runs: bodies are always interpreted (exact semantics; avoids symbolic hashes reaching C-level dict hashing)',
             'CrossHair/z3 sound for int/list/dict/dataclass semantics')
  only = os.environ.get('VF_ONLY')
  xh.run_module(rep, gen(**p), 'c03_h', timeout, classify=classify, only=(lambda n: only in n) if only else None)
  return rep.finish()
