#!/bin/bash
# tools/mutbatch.sh PROP...  : verify + check every staged mutant of the given properties (sequential), summary to .work/logs/mut_summary.txt
cd /verif; mkdir -p .work/logs
for prop in "$@"; do
  for d in seeded/staging/$prop/m*.diff; do
    m=$(basename $d .diff)
    v=$(./tools/mutant.sh verify $d seeded/staging/$prop/${m}_demo.py 2>&1 | tee .work/logs/${prop}_${m}_verify.log | grep -E "MUTANT-(CONFIRMED|REJECTED)|APPLY-FAILED")
    ./tools/mutant.sh check $prop $d > .work/logs/${prop}_${m}_check.log 2>&1
    c=$(grep -E "CHECK-EXIT|APPLY-FAILED" .work/logs/${prop}_${m}_check.log | tail -1)
    echo "$prop $m $v $c" >> .work/logs/mut_summary.txt
  done
done
