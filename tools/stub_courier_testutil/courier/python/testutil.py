def SetupMockBNS(): pass
