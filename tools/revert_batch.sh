#!/bin/bash
# runs the property's quick check against each revert seed; writes detected_by into meta.json
cd /verif
for d in seeded/revert-*; do
  prop=$(python3 -c "import json;print(json.load(open('$d/meta.json'))['breaks'])")
  [ -f checks/${prop,,}.py ] || { echo "$d $prop no-check-yet" >> .work/logs/revert_summary.txt; continue; }
  python3 -c "import json;m=json.load(open('$d/meta.json'));exit(0 if 'detected_by' in m else 1)" && continue
  ./tools/mutant.sh check $prop $d/patch.diff > .work/logs/$(basename $d).log 2>&1
  rc=$(grep -E "CHECK-EXIT|APPLY-FAILED" .work/logs/$(basename $d).log | tail -1)
  echo "$d $prop $rc" >> .work/logs/revert_summary.txt
  if [[ "$rc" == "CHECK-EXIT=1" ]]; then
    python3 - <<PY
import json
m=json.load(open('$d/meta.json')); m['detected_by']='./run.py $prop --tier quick -> exit 1 on the tree with this revert applied (tools/mutant.sh check)'
json.dump(m,open('$d/meta.json','w'),indent=1)
PY
  fi
done
