#!/usr/bin/env python3
"""Regenerates /verif/MANIFEST.json from the table below (keeps it schema-valid)."""
import json, os
HERE = os.path.dirname(os.path.dirname(os.path.abspath(__file__)))
props = [json.loads(l) for l in open(os.path.join(HERE, 'properties.jsonl'))]

XH_NOTE = ('Trusted: CPython 3.12, CrossHair 0.0.110 symbolic int/bool/list models and z3; harness stubs listed in the '
           'evidence file. Bounded: only the stated ranges are covered; a timeout/"Not confirmed" is exit 2, never success.')
XH_TECH = 'bounded symbolic execution of the real Python code with CrossHair (z3), fixed-arity generated contract harnesses, concrete replay of counterexamples'

SX_NOTE = ('Trusted: CPython, z3 (QF_NRA/LIA), the symx proxies and numpy facade (vf/symx.py; validated against real numpy on random constants in '
           'every job: coverage.translator_validation). Floats are idealised as reals plus an explicit NaN case split; +-inf is not modelled (cut paths are '
           'counted). Bounded: only the stated row counts / domains; timeouts, unknown or non-reproducing models are exit 2, never success.')
SX_TECH = 'bounded symbolic execution of the real metric code over z3 terms (own proxy executor symx: DFS over branch decisions with z3 feasibility, per-path unsat of the negated claim, concrete replay of models)'

BM_NOTE = ('Trusted: z3 QF_BV; the AST->IR front end (vf/pybmc_front.py; unsupported syntax = exit 2) and the models of threading.Condition (re-entrant lock, FIFO waiters), '
           'queue.SimpleQueue/Queue, thread start/join; pre-emption only at the points selected by the static lockset/Lipton analysis. Every reported trace and one passing '
           'execution per scenario are replayed on the real classes with controlled primitives (a non-matching replay is exit 2). Bounded: threads, elements, depth as listed in the evidence.')
BM_TECH = 'bounded model checking of the real threaded code: python source -> goto IR (ast) -> macro-step transition relation with a symbolic scheduler -> z3 QF_BV; deadlock / bad-final-state / unwinding queries; schedule replay on the real code'

CHECKS = {
    'C09': dict(engine='xh', level='other', design_ref='DESIGN.md#c09',
                text='Every obligation (shard interval arithmetic, nested shards, from_state, round-robin shards, merged-sequence '
                     'index/slice/iterate vs concatenation) is executed symbolically on the real code over all n,k,i,offset,'
                     'sub-sequence lengths, indices and slice bounds inside the stated bounds; z3 proves the postcondition on every path. '
                     'Bounded (not a proof): values beyond the bounds are outside the claim.'),
    'C19': dict(engine='xh', level='other', design_ref='DESIGN.md#c19',
                text='rebatched_args/_concat/_pad/_batch_size and TreeFn._iterate re-batching are executed symbolically for every input batch '
                     'size, target size and batch-object aliasing pattern inside the bounds (number of input batches, container kind, columns, '
                     'padding enumerated completely); z3 proves conservation of rows/order/alignment/batch sizes and non-mutation of the '
                     'caller\'s batches on every path. Bounded.'),
    'C10': dict(engine='xh', level='other', design_ref='DESIGN.md#c10',
                text='state/from_state of SequenceIterator, DataIterator, MultiplexIterator (sequential), _RunnerIterator and '
                     '_ChainedRunnerIterator executed symbolically with symbolic source length, shard configuration and cut positions for '
                     'one, two and three successive checkpoint/restore cycles, incl. the original iterator continuing after the checkpoint and '
                     'a double restore from one captured state; z3 proves "delivered-before ++ delivered-after == uninterrupted" and equal final '
                     'aggregates on every path. Bounded; threaded configurations are outside the claim.'),
    'C12': dict(engine='xh', level='other', design_ref='DESIGN.md#c12',
                text='The real error-skipping paths (iter_ignore_error, processed_with_inputs tee alignment, _RangeIterator skip-on-error with '
                     'read-ahead fallback, TreeFn/Assign/FilterFn/Sink iterate, _RunnerIterator) are executed symbolically with one symbolic failure bit per '
                     'element for operators and for the data source, skipping on and off; z3-backed path exploration covers every fault schedule inside '
                     'the bounds and proves: survivors delivered once, in order, aligned; first error surfaces with its cause, iteration stops, sink closed. Bounded; threads outside.'),
    'C01': dict(engine='symx', level='other', design_ref='DESIGN.md#c01', note=SX_NOTE, technique=SX_TECH,
                text='For 27 shipped accumulators (rolling statistics incl. NaN and 2-D input, histograms, counters, samplers, Tjur/R-regression/SPD sufficient '
                     'statistics, confusion-matrix aggregates binary/multiclass/top-k, samplewise classification, top-k retrieval incl. ragged rankings, text n-gram and '
                     'pattern frequencies) and every composition of the rows into shards x batches (incl. empty shards), z3 proves on every feasible path that the merged '
                     'result equals the one-batch result and that per-row values do not depend on batch mates. Bounded (3 rows quick / 4 thorough); rounding is outside by the property\'s own wording.'),
    'C11': dict(engine='symx', level='other', design_ref='DESIGN.md#c11', note=SX_NOTE, technique=SX_TECH,
                text='For the same accumulators as C01, states built from symbolic batches (incl. the fresh state): z3 proves per path associativity, commutativity '
                     '(order-insensitive ones), neutrality of the fresh state on both sides, that merge leaves the merged-in state intact and that later updates of either side '
                     'do not leak into the other (real numpy buffers are shared/mutated, so aliasing is observable), and that result() is repeatable. FixedSizeSample: operand/size/'
                     'membership/count law with a nondeterministic RNG stub. Bounded (1-2 rows per state).'),
    'C07': dict(engine='symx', level='other', design_ref='DESIGN.md#c07', note=SX_NOTE, technique=SX_TECH,
                text='The real metric code is executed on symbolic data and compared, per path, with independently written textbook definitions (z3 terms over raw '
                     'examples): all 30 derived confusion-matrix rates over UNBOUNDED non-negative counts (definition, documented aliases, range, incl. MCC and prevalence '
                     'threshold characterised without sqrt), confusion counts + rates from raw labels for binary/multiclass/indicator/multioutput x micro/macro/binary/samples, '
                     'function API == accumulator API, top-k matrices for contiguous and gapped k-lists, 17 retrieval metrics per row, moments with NaN, min/max, histograms, '
                     'calibration histogram, Tjur R2, Pearson r, SPD, flip masks, top-k accuracy, cross entropies. Bounded in rows/classes; rounding outside.'),
    'C02': dict(engine='symx', level='other', design_ref='DESIGN.md#c02', note=SX_NOTE, technique=SX_TECH,
                text='The real aggregate/slicing pipeline (TransformRunner.update_state/get_result, Slicer row->mask construction, TreeFn input selection and masking, '
                     'tree.apply_mask filter/replace) runs on symbolic batches; per path z3 proves every reported value equals a brute-force group-by over the same rows, the '
                     'reported key set is exactly the set of keys with a member row, and the unsliced result is identical with and without slicers - for single-feature, cross, '
                     'multiple, restricted-value, fan-out, replace-style (numpy columns) and intra-example mask slicers, stacked aggregates (incl. disable_slicing) and every '
                     'composition of the rows into batches. Bounded (3 rows quick / 4 thorough, small feature domains).'),
    'C08': dict(engine='xh', level='other', design_ref='DESIGN.md#c08',
                text='Operator chains (select/apply/assign/filter/batch/sink, all key shapes) are built with the real TreeTransform and run on symbolic record streams; '
                     'CrossHair/z3 proves on all paths that the emitted stream equals a reference interpreter, that assign adds exactly the named keys and shares every other '
                     'object, that caller records are unchanged, that sinks see every record once and are closed once also when the stream faults, and that key sets are '
                     'rejected at build time iff the reference predicate says so. Bounded: sequences <=2 (quick) / <=3 (thorough) operators, <=3 records.'),
    'C03': dict(engine='xh', level='other', design_ref='DESIGN.md#c03',
                text='Sequential execution strategies only: the fluent fused transform, every 2-way (3-way) split into a chain of named transforms, stage-by-stage execution of '
                     'named_transforms() and the same-name fused chain are run with CrossHair on symbolic sources (length, offset, operator constants symbolic) and must emit the same '
                     'batches and aggregate; a source split into k shards (k<=3 quick / 4 thorough, read-ahead 2 and default) concatenated in shard order and merged (three merge '
                     'entry points, strict_states_cnt=k) must equal the whole-source run; num_threads=0 equals the default. Threaded strategies (num_threads>0, in-process '
                     'iterate) are NOT decided here: the queue/multiplex layer they are built from is model-checked in C04/C13.'),
    'C06': dict(engine='xh', level='other', design_ref='DESIGN.md#c06',
                text='Task path only (orchestrate.as_completed on the real WorkerPool/Worker/CourierClient/Task/WorkerRegistry over a fake single-threaded transport with a virtual '
                     'clock). The fault schedule (outcome of the i-th call of each worker: ok / deadline / application error / host death / death+rejoin) is symbolic and explored '
                     'exhaustively by CrossHair per configuration: no result doubled or invented, nothing missing on normal return, exactly-once while one worker never died, '
                     'application errors surface unless ignore_failures, all workers released on return and on raise. The shard/generator path (asyncio + RPC transport not '
                     'installed) is NOT decided: "every shard state merged exactly once" and "every output batch at least once" are not claimed.'),
    'C16': dict(engine='xh', level='other', design_ref='DESIGN.md#c16',
                text='Only the merge layer that distributed execution relies on: merge_states of TransformRunner/ChainedRunner (plain and AGGREGATE mode) with symbolic number of '
                     'arriving states m and expected count c raises ValueError iff c != 0 and m != c and otherwise folds every state exactly once; merged shard states (k<=3/4), '
                     'sliced aggregates and two aggregating stages give the single-process result through get_result. The equivalence clauses that need the worker pool, remote '
                     'queues and the asyncio/courier transport (multiset of output batches, exactly one final result message) are NOT decided.'),
    'C17': dict(engine='xh', level='other', design_ref='DESIGN.md#c17',
                text='LruCache as one inductive step from an arbitrary valid state (keys/recency/counters symbolic) against a reference model incl. the representation invariant, '
                     'bounded histories with clear; lazy expression skeletons (<=2-3 productions) with symbolic integer leaves and symbolic cache/lazy flags: materialised value == eager '
                     'value (also after a pickle round trip), call counts, identity while cached, fresh after clear_cache, real 128/1024 bounds, missing-object error. Bounded.'),
    'C18': dict(engine='xh', level='other', design_ref='DESIGN.md#c18',
                text='Trees are built by a recursive builder driven by symbolic choice ints (depth 2 quick / 3 thorough) with symbolic int leaves; CrossHair/z3 proves on all paths '
                     'get-after-set, the frame condition with object identity, non-mutation and sharing of untouched sub-trees, no-op sets, leaf enumeration, aligned multi-key reads, '
                     'apply over leaves only, special keys (SELF, SKIP, fresh keys, index append) and two-step histories against an independent reference. Bounded.'),
    'C04': dict(engine='pybmc', level='model_checking', design_ref='DESIGN.md#c04', note=BM_NOTE, technique=BM_TECH,
                text='The current source of IteratorQueue and _release_and_notify is compiled to a transition system; for each scenario (producers x elements x consumers, '
                     'get / get_batch with batch size and blocking flag, bounded and unbounded buffers) z3 decides over ALL interleavings at the pre-emption points that no deadlock '
                     'and no bad final state (element lost/duplicated/reordered, wrong end-of-stream payload) is reachable, and an unwinding query shows the depth bound is sufficient. '
                     'Quick: 2 threads; thorough: 3 threads and longer streams.'),
    'C05': dict(engine='pybmc', level='model_checking', design_ref='DESIGN.md#c05', note=BM_NOTE, technique=BM_TECH,
                text='Same encoding as C04 with faults as solver variables: the producer iterator raises at a symbolic position, a stopper thread calls maybe_stop()/maybe_stop(exc) '
                     'anywhere in the interleaving, configured timeouts may fire at any wait. z3 decides per scenario: no deadlock; consumers observe the producer exception (never a clean '
                     'end of stream, also when the queue is stopped and read again); no element twice; a stop request leaves no producer/consumer blocked (bounded buffer, batch consumer); '
                     'starved get/put end in TimeoutError. Quick: 2 threads; thorough: 3 threads.'),
    'C13': dict(engine='pybmc', level='model_checking', design_ref='DESIGN.md#c13', note=BM_NOTE, technique=BM_TECH,
                text='MultiplexIterator.__next__/maybe_stop, DequeueIterator (num_steps), IteratorQueue and _ThreadSafeIterator are compiled from source; pool workers are threads with '
                     'arbitrary start delay, shutdown() is a join; queue constants come from running the real piter_fn/piter_multiplex wiring. z3 decides over all interleavings, '
                     'symbolic early-stop and failure positions: shutdown always returns (no helper thread left blocked), outputs are the sequential multiset / exactly k on early '
                     'stop / the input error reaches the caller. Quick: parallelism 1; thorough: parallelism 2, shared and independent inputs.'),
    'C15': dict(engine='pybmc', level='model_checking', design_ref='DESIGN.md#c15', note=BM_NOTE, technique=BM_TECH,
                text='PrefetchedCourierServer._next_batch/_stop_prefetch are compiled from source on top of the IteratorQueue encoding, with the prefetch thread, a client thread that '
                     'interprets the batch markers like courier_utils.async_iterate and (thorough) a shutdown thread. z3 decides over all interleavings and a symbolic generator failure '
                     'position: no request stays blocked; the concatenated batches are the generator elements in order, each once, then exactly one end marker with the return value; a '
                     'failure arrives after the elements produced before it (known finding: partial batch dropped). One generator life-cycle; re-initialisation is outside.'),
    'C20': dict(engine='pybmc', level='model_checking', design_ref='DESIGN.md#c20', note=BM_NOTE, technique=BM_TECH + '; crosshair for the sequential liveness-table part',
                text='(a) Worker.acquire_by/release/is_available/is_locked and WorkerPool._acquire_all/release_all are compiled from source; two pools (threads) share 1-2 workers; z3 '
                     'decides over all interleavings: a pool that was told it owns a worker keeps is_locked(pool) until it releases, nobody releases an unlocked lock, no worker stays '
                     'locked after the pool-level operations returned. Termination of blocking acquisition is outside the claim (deadlock observed, DESIGN.md). (b) WorkerRegistry.'
                     'refresh/register/unregister compiled from source, 2-4 threads on one address with symbolic heartbeat times: the final entry is the result of some sequential '
                     'order (a late refresh never revives a dead worker nor moves a newer heartbeat backwards). (c) CrossHair: sequential registry histories, the liveness predicate '
                     'is_alive <=> now - last < threshold over symbolic times, ownership invariants over 4-op histories of 2 pools x 2 workers, release on return and on raise.'),
}
NA = {'C14': 'Solver-based checking cannot reach it: the deciding mechanism is a cloudpickle round trip (C boundary: every symbolic value is realised at pickle.dumps) through a '
            'courier RPC transport that is not installed in the sandbox (the installed `courier` distribution has no Client/Server), driven by server threads and an '
            'asyncio loop. What would remain symbolic is only the expression structure, i.e. enumeration under another name. The pure lazy-expression semantics that C14 '
            'builds on (evaluate == eager, caching, handles, same-process pickling) are decided in C17; the prefetch/batch protocol of remote iterators in C15.'}
PENDING = 'check not built yet (see DESIGN.md build order)'

m = {
    'version': 1,
    'setup_cmd': './setup.sh',
    'hooks': {
        'guard': 'GOOGLE_ML_METRICS_VERIF',
        'enable': 'no hooks are compiled in: harnesses rebind module globals at run time and read source text; the guard name is reserved',
        'baseline_off_cmd': 'cd /repo && /venv/bin/python -m pytest -ra -q -p no:cacheprovider --timeout=900 --continue-on-collection-errors',
        'source_commits': [],
        'add_only': True,
    },
    'engines': [
        {'name': 'xh', 'path': 'vf/xh.py', 'serves_properties': sorted(k for k, v in CHECKS.items() if v['engine'] == 'xh'),
         'kind_free_text': 'CrossHair (z3) bounded symbolic execution of real repo functions through generated fixed-arity contract harnesses'},
        {'name': 'pybmc', 'path': 'vf/pybmc.py', 'serves_properties': sorted(k for k, v in CHECKS.items() if v['engine'] == 'pybmc'),
         'kind_free_text': 'AST front end (vf/pybmc_front.py) + macro-step BMC back end (z3 QF_BV) + schedule replay on the real code (vf/bmc_replay.py)'},
        {'name': 'symx', 'path': 'vf/symx.py', 'serves_properties': sorted(k for k, v in CHECKS.items() if v['engine'] == 'symx'),
         'kind_free_text': 'own proxy executor: real metric code runs on z3 Real/Int/Bool proxies inside object numpy arrays behind a numpy facade; DFS over branches; z3 discharges claims per path'},
    ],
    'checks': [],
    'notes': 'Exit codes: 0 all obligations discharged; 1 VIOLATION (counterexample replayed on the real code); 2 inconclusive. '
             'Evidence is rewritten on every run. Known findings: known_findings.json.',
    'not_applicable': [],
}
for p in props:
  pid = p['id']
  if pid in CHECKS:
    c = CHECKS[pid]
    m['checks'].append({
        'property_id': pid,
        'quick_cmd': f'./run.py {pid} --tier quick',
        'thorough_cmd': f'./run.py {pid} --tier thorough',
        'evidence_file': f'/verif/evidence/{pid}.json',
        'replay_cmd_template': f'./run.py {pid} --replay {{path}}',
        'engine': c['engine'],
        'level_claimed': {'category': c['level'], 'text': c['text'], 'design_ref': c['design_ref']},
        'level_note': c.get('note', XH_NOTE),
        'technique': c.get('technique', XH_TECH),
    })
  else:
    m['not_applicable'].append({'property_id': pid, 'reason': NA.get(pid, PENDING)})
json.dump(m, open(os.path.join(HERE, 'MANIFEST.json'), 'w'), indent=1)
print('claimed', [c['property_id'] for c in m['checks']])
