#!/usr/bin/env python3
"""Static undefined-name scan of the verification code (no pyflakes in the sandbox).

A name that a function reads as a global but that neither the module nor builtins defines is a
NameError waiting for the first call - exactly what made C04 exit 2 after the C13 predicate edit
(DESIGN.md section 5). Run after every edit of vf/, checks/, tools/ or run.py:

  ./tools/lint_names.py        exit 0 = clean, exit 1 = names listed

Not part of any registered command; generated harness text (PRELUDE strings) is not covered.
"""
import builtins
import glob
import os
import symtable
import sys

IGNORE = {'__file__', '__name__', '__doc__', '__builtins__', '__spec__', '__package__'}


def scan(path):
  src = open(path).read()
  try:
    st = symtable.symtable(src, path, 'exec')
  except SyntaxError as e:
    return [f'{path}: syntax error: {e}']
  if 'import *' in src:
    return []
  top = {s.get_name() for s in st.get_symbols() if s.is_assigned() or s.is_imported() or s.is_namespace()}
  out = []

  def known(n):
    return n in top or hasattr(builtins, n) or n in IGNORE

  for s in st.get_symbols():
    if s.is_referenced() and not (s.is_assigned() or s.is_imported() or s.is_namespace()) and not known(s.get_name()):
      out.append(f'{path}: <module>: {s.get_name()}')

  def walk(t):
    for s in t.get_symbols():
      if s.is_global() and s.is_referenced() and not s.is_assigned() and not known(s.get_name()):
        out.append(f'{path}: {t.get_name()}: {s.get_name()}')
    for c in t.get_children():
      walk(c)

  for c in st.get_children():
    walk(c)
  return out


def main():
  root = os.path.dirname(os.path.dirname(os.path.abspath(__file__)))
  files = [os.path.join(root, 'run.py')]
  for d in ('vf', 'checks', 'tools'):
    files += sorted(glob.glob(os.path.join(root, d, '*.py')))
  bad = [m for f in files for m in scan(f)]
  for m in bad:
    print(m)
  print(f'lint_names: {len(files)} files, {len(bad)} undefined names')
  return 1 if bad else 0


if __name__ == '__main__':
  sys.exit(main())
