#!/bin/bash
# tools/mutant.sh verify <diff> <demo.py>     -- confirm a seeded change: applies, suite unchanged, demo fails with / passes without
# tools/mutant.sh check <PROP> <diff> [tier]  -- run a check against a scratch worktree of /repo HEAD with the change applied
# Scratch worktrees live under /tmp and are removed before returning.
set -u
cmd=$1; shift
wt=/tmp/mv_$$_$RANDOM
cleanup() { git -C /repo worktree remove --force "$wt" >/dev/null 2>&1; rm -rf "$wt"; }
trap cleanup EXIT
git -C /repo worktree add -q --detach "$wt" HEAD || exit 3
apply() { git -C "$wt" apply "$1" 2>/dev/null || git -C "$wt" apply -3 "$1" 2>/dev/null || (cd "$wt" && patch -p1 -s -F3 < "$1"); }
case $cmd in
verify)
  diff=$(realpath "$1"); demo=$(realpath "$2")
  apply "$diff" || { echo "APPLY-FAILED"; exit 4; }
  mkdir -p "$wt/_mutants"; cp "$demo" "$wt/_mutants/demo.py"
  (cd "$wt" && timeout 600 /venv/bin/python _mutants/demo.py >/tmp/mv_demo_$$.log 2>&1); with=$?
  suite=$(cd "$wt" && /venv/bin/python -m pytest -q -p no:cacheprovider --timeout=900 --continue-on-collection-errors 2>&1 | tail -1)
  git -C "$wt" reset -q --hard HEAD; git -C "$wt" clean -qfd -e _mutants >/dev/null
  (cd "$wt" && timeout 600 /venv/bin/python _mutants/demo.py >/dev/null 2>&1); without=$?
  echo "demo_with_change_exit=$with demo_without_exit=$without suite='$suite'"
  tail -3 /tmp/mv_demo_$$.log; rm -f /tmp/mv_demo_$$.log
  [[ $with -ne 0 && $without -eq 0 && "$suite" == *"657 passed"* && "$suite" == *"7 errors"* ]] && echo "MUTANT-CONFIRMED" || echo "MUTANT-REJECTED"
  ;;
check)
  prop=$1; diff=$(realpath "$2"); tier=${3:-quick}
  apply "$diff" || { echo "APPLY-FAILED"; exit 4; }
  out=/verif/.work/mut-evidence-$$; mkdir -p $out
  (cd /verif && VERIF_REPO="$wt" VERIF_EVIDENCE_DIR=$out VERIF_REPLAY_DIR=$out ./run.py "$prop" --tier "$tier" ${VF_ONLY:+--only $VF_ONLY}); rc=$?
  echo "CHECK-EXIT=$rc"; rm -rf $out
  exit $rc
  ;;
esac
