#!/bin/bash
# tools/stage2.sh PROP...  : collect second-round sub-agent mutants from /tmp/wt2_<PROP>/_mutants into seeded/staging/<PROP>/ and remove the scratch worktree
for p in "$@"; do
  src=/tmp/wt2_$p/_mutants
  if [ -d $src ]; then mkdir -p /verif/seeded/staging/$p; cp $src/m[34]* /verif/seeded/staging/$p/ 2>/dev/null; ls /verif/seeded/staging/$p | tr '\n' ' '; echo; fi
  git -C /repo worktree remove --force /tmp/wt2_$p 2>/dev/null; rm -rf /tmp/wt2_$p
done
