#!/bin/bash
# tools/mutbatch2.sh PROP:mN ... [tier]: verify + check the named staged mutants (sequential); summary appended to .work/logs/mut_summary2.txt
cd /verif; mkdir -p .work/logs
for item in "$@"; do
  prop=${item%%:*}; m=${item##*:}
  d=seeded/staging/$prop/$m.diff
  v=$(./tools/mutant.sh verify $d seeded/staging/$prop/${m}_demo.py 2>&1 | tee .work/logs/${prop}_${m}_verify.log | grep -E "MUTANT-(CONFIRMED|REJECTED)|APPLY-FAILED")
  ./tools/mutant.sh check $prop $d > .work/logs/${prop}_${m}_check.log 2>&1
  c=$(grep -E "CHECK-EXIT|APPLY-FAILED" .work/logs/${prop}_${m}_check.log | tail -1)
  echo "$prop $m $v $c" >> .work/logs/mut_summary2.txt
done
