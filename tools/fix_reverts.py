#!/usr/bin/env python3
"""Generates seeded/revert-<hash>/ (patch.diff = reverse of each `fix:` commit in /repo) so that every repaired defect
stays covered: applying the revert must flip the property's check back to exit 1."""
import json, os, re, subprocess
known = json.load(open('/verif/known_findings.json'))
prop_of = {}
for line in known['fixed']:
  m = re.match(r'fixed: property=(C\d+) ([0-9a-f]+) (.*)', line)
  if m:
    prop_of[m.group(2)] = (m.group(1), m.group(3))
log = subprocess.check_output(['git', '-C', '/repo', 'log', '--format=%h %s']).decode().splitlines()
for l in log:
  h, subj = l.split(' ', 1)
  if not subj.startswith('fix:'):
    continue
  prop, what = prop_of.get(h, ('?', ''))
  d = f'/verif/seeded/revert-{prop}-{h}'
  os.makedirs(d, exist_ok=True)
  diff = subprocess.check_output(['git', '-C', '/repo', 'diff', h, h + '^']).decode()
  open(d + '/patch.diff', 'w').write(diff)
  meta = {'breaks': prop, 'kind': 'revert of a repaired genuine defect', 'commit': h, 'subject': subj, 'what_failed': what,
          'needs_to_manifest': 'see what_failed', 'verified_by_me': 'the defect was found by the check on the pre-fix tree (see git history of known_findings.json)'}
  if os.path.exists(d + '/meta.json'):
    old = json.load(open(d + '/meta.json'))
    meta.update({k: v for k, v in old.items() if k in ('detected_by',)})
  json.dump(meta, open(d + '/meta.json', 'w'), indent=1)
  print(d, prop)
