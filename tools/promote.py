#!/usr/bin/env python3
"""tools/promote.py PROP MUT 'detected-by text' ['extra note'] : copies a confirmed staged mutant to seeded/PROP-MUT/."""
import json, os, shutil, sys
prop, mut, detected = sys.argv[1:4]
note = sys.argv[4] if len(sys.argv) > 4 else ''
src = f'/verif/seeded/staging/{prop}'
dst = f'/verif/seeded/{prop}-{mut}'
os.makedirs(dst, exist_ok=True)
shutil.copy(f'{src}/{mut}.diff', f'{dst}/patch.diff')
shutil.copy(f'{src}/{mut}_demo.py', f'{dst}/demo.py')
meta = json.load(open(f'{src}/{mut}_meta.json'))
meta.update({'breaks': prop, 'source': 'independent sub-agent given only the property text and a scratch worktree',
             'verified_by_me': 'tools/mutant.sh verify: applies to /repo HEAD in a scratch worktree, full suite 657 passed / 7 collection errors, demo exits non-zero with the change and 0 without',
             'detected_by': detected})
if note:
  meta['note'] = note
json.dump(meta, open(f'{dst}/meta.json', 'w'), indent=1)
print('promoted', dst)
