#!/bin/bash
# tools/thorough_all.sh PROP... : run the thorough tier of each property sequentially; one summary line each in .work/logs/thorough_summary.txt
cd /verif; mkdir -p .work/logs
for p in "$@"; do
  s=$(date +%s)
  ./run.py $p --tier thorough > .work/logs/${p}_thorough.log 2>&1; rc=$?
  echo "$p exit=$rc wall=$(( $(date +%s) - s ))s $(grep -E '^\[' .work/logs/${p}_thorough.log | tail -1)" >> .work/logs/thorough_summary.txt
done
