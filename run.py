#!/usr/bin/env python3
"""Entry point: run.py <PROPERTY> [--tier quick|thorough] [--replay FILE].

Exit 0 = every obligation discharged within the stated bounds; exit 1 + a line
`VIOLATION property=<id> replay=<path>` = counterexample that reproduced on the
real code; exit 2 = inconclusive (timeout / unknown / unsupported / non-reproducing).
"""
import argparse
import importlib
import json
import os
import shutil
import sys

sys.path.insert(0, os.path.dirname(os.path.abspath(__file__)))
from vf import common  # noqa: E402


def main():
  ap = argparse.ArgumentParser()
  ap.add_argument('prop')
  ap.add_argument('--tier', default=os.environ.get('VERIF_TIER', 'quick'), choices=['quick', 'thorough'])
  ap.add_argument('--replay')
  ap.add_argument('--only', default=None, help='substring filter on obligation names (debugging)')
  args = ap.parse_args()
  common.ensure_venv()
  sys.path.insert(0, common.REPO)
  mod = importlib.import_module(f'checks.{args.prop.lower()}')
  if args.replay:
    with open(args.replay) as f:
      data = json.load(f)
    sys.exit(mod.replay(data) if hasattr(mod, 'replay') else _default_replay(data))
  if args.only:
    os.environ['VF_ONLY'] = args.only
  code = mod.run(args.tier)
  if not os.environ.get('VF_KEEP_WORK'):
    shutil.rmtree(common.WORK, ignore_errors=True)
  sys.exit(code)


def _default_replay(data):
  if data.get('engine') == 'xh':
    from vf import xh
    return xh.replay_file(data)
  print('no replay support for', data.get('engine'))
  return 2


if __name__ == '__main__':
  main()
