"""Plumbing shared by every check: paths, venv bootstrap, evidence, findings, exit codes."""
from __future__ import annotations

import hashlib
import inspect
import json
import os
import subprocess
import sys
import time

VERIF = os.path.dirname(os.path.dirname(os.path.abspath(__file__)))
REPO = os.environ.get('VERIF_REPO', '/repo')
WORK = os.environ.get('VERIF_WORK') or os.path.join(VERIF, '.work', f'run-{os.getpid()}')
os.environ['VERIF_WORK'] = WORK
REPLAYS = os.environ.get('VERIF_REPLAY_DIR') or os.path.join(VERIF, 'replays')
EVIDENCE = os.environ.get('VERIF_EVIDENCE_DIR') or os.path.join(VERIF, 'evidence')
VENV_PY = os.path.join(VERIF, '.venv', 'bin', 'python')
KNOWN = os.path.join(VERIF, 'known_findings.json')
NCPU = int(os.environ.get('VERIF_JOBS', '0')) or max(2, (os.cpu_count() or 4) - 2)

EXIT_OK, EXIT_VIOLATION, EXIT_INCONCLUSIVE = 0, 1, 2


def ensure_venv():
  """Re-exec under /verif/.venv (built offline by setup.sh) if we are not in it."""
  if os.path.realpath(sys.prefix) == os.path.realpath(os.path.join(VERIF, '.venv')):
    return
  if not os.path.exists(VENV_PY):
    subprocess.check_call([os.path.join(VERIF, 'setup.sh')], stdout=sys.stderr)
  env = dict(os.environ)
  env.setdefault('PYTHONHASHSEED', '0')
  os.execve(VENV_PY, [VENV_PY] + sys.argv, env)


def seed() -> int:
  try:
    return int(os.environ.get('VERIF_SEED', '0'))
  except ValueError:
    return 0


def src_ref(obj) -> dict:
  """file:line-range + hash of the *current* source of a repo object (for evidence)."""
  try:
    obj = inspect.unwrap(obj)
    if isinstance(obj, property):
      obj = obj.fget
    lines, start = inspect.getsourcelines(obj)
    f = os.path.relpath(inspect.getsourcefile(obj), REPO)
    h = hashlib.sha1(''.join(lines).encode()).hexdigest()[:12]
    name = getattr(obj, '__qualname__', getattr(obj, '__name__', str(obj)))
    return {'fn': name, 'where': f'{f}:{start}-{start + len(lines) - 1}', 'sha1': h}
  except Exception as e:  # pylint: disable=broad-exception-caught
    return {'fn': str(obj), 'where': f'<unavailable: {type(e).__name__}>'}


def file_sha(relpath: str) -> str:
  with open(os.path.join(REPO, relpath), 'rb') as f:
    return hashlib.sha1(f.read()).hexdigest()[:12]


def load_known(pid: str):
  if not os.path.exists(KNOWN):
    return {}
  with open(KNOWN) as f:
    data = json.load(f)
  return {k['signature']: k for k in data.get('findings', []) if k['property'] == pid}


class Violation:

  def __init__(self, signature: str, what: str, replay: dict):
    self.signature, self.what, self.replay = signature, what, replay


class Report:
  """Collects obligations of one check run, writes evidence, decides the exit code."""

  def __init__(self, pid: str, tier: str, level: str, explanation: str):
    self.pid, self.tier, self.level = pid, tier, level
    self.t0 = time.time()
    self.cov = {
        'explanation': explanation,
        'obligations': 0,
        'discharged': 0,
        'evaluations': 0,
        'distinct_nontrivial': 0,
        'samples': [],
        'exhaustive': False,
        'functions_encoded': [],
        'bounds': {},
        'outside_claim': [],
        'solver': {'queries': 0, 'unsat': 0, 'sat': 0, 'unknown': 0, 'time_s': 0.0},
        'vacuity_witnesses': {'required': 0, 'satisfied': 0},
        'inconclusive': [],
    }
    self.assumptions: list[str] = []
    self.violations: list[Violation] = []
    import shutil
    shutil.rmtree(os.path.join(REPLAYS, pid), ignore_errors=True)   # replays of earlier runs are stale
    self.known_hits: list[Violation] = []

  # -- bookkeeping -------------------------------------------------------------
  def encoded(self, *objs):
    for o in objs:
      self.cov['functions_encoded'].append(src_ref(o) if not isinstance(o, dict) else o)

  def bounds(self, **kw):
    self.cov['bounds'].update(kw)

  def outside(self, *items):
    self.cov['outside_claim'].extend(items)

  def assume(self, *items):
    self.assumptions.extend(items)

  def sample(self, s, limit=12):
    if len(self.cov['samples']) < limit:
      self.cov['samples'].append(s)

  def obligation(self, ok: bool | None, name: str, why: str = ''):
    """ok True = discharged, None = inconclusive, False handled through violation()."""
    self.cov['obligations'] += 1
    if ok:
      self.cov['discharged'] += 1
    elif ok is None:
      self.cov['inconclusive'].append(f'{name}: {why}'[:300])

  def witness(self, ok: bool, name: str, why: str = ''):
    self.cov['vacuity_witnesses']['required'] += 1
    if ok:
      self.cov['vacuity_witnesses']['satisfied'] += 1
    else:
      self.cov['inconclusive'].append(f'witness {name}: {why}'[:300])

  def solver(self, result: str, secs: float, n: int = 1):
    s = self.cov['solver']
    s['queries'] += n
    s[result if result in ('sat', 'unsat') else 'unknown'] += n
    s['time_s'] = round(s['time_s'] + secs, 3)

  def violation(self, signature: str, what: str, replay: dict):
    self.cov['obligations'] += 1
    v = Violation(signature, what, replay)
    known = load_known(self.pid)
    (self.known_hits if signature in known else self.violations).append(v)

  # -- finish ------------------------------------------------------------------
  def finish(self) -> int:
    cov = self.cov
    cov['exhaustive'] = (
        not cov['inconclusive'] and not self.violations and not self.known_hits
        and cov['obligations'] == cov['discharged'] and cov['obligations'] > 0)
    if not cov['samples']:
      cov['samples'] = ['<none>']
    cov['distinct_nontrivial'] = max(cov['distinct_nontrivial'], 0)
    cov['known_findings_hit'] = [v.signature for v in self.known_hits]
    os.makedirs(EVIDENCE, exist_ok=True)
    ev = {
        'property_id': self.pid,
        'tier': self.tier,
        'seed': seed(),
        'level': self.level,
        'coverage': cov,
        'assumptions': self.assumptions,
        'wall_s': round(time.time() - self.t0, 2),
        'violations': len(self.violations),
    }
    seen = set()
    for v in self.known_hits:
      if v.signature not in seen:
        seen.add(v.signature)
        print(f'KNOWN-FINDING: property={self.pid} {v.signature}: {v.what}')
    code = EXIT_OK
    if self.violations:
      os.makedirs(os.path.join(REPLAYS, self.pid), exist_ok=True)
      for i, v in enumerate(self.violations):
        path = os.path.join(REPLAYS, self.pid, f'{_safe(v.signature)}-{i}.json')
        with open(path, 'w') as f:
          json.dump({'property': self.pid, 'signature': v.signature, 'what': v.what, **v.replay}, f, indent=1)
        print(f'VIOLATION property={self.pid} replay={path}')
        print(f'  what: {v.what}')
      code = EXIT_VIOLATION
    elif cov['inconclusive']:
      code = EXIT_INCONCLUSIVE
      for w in cov['inconclusive'][:20]:
        print(f'INCONCLUSIVE property={self.pid} {w}')
    ev['exit_code'] = code
    with open(os.path.join(EVIDENCE, f'{self.pid}.json'), 'w') as f:
      json.dump(ev, f, indent=1, default=str)
    s = cov['solver']
    print(f'[{self.pid} {self.tier}] obligations={cov["obligations"]} discharged={cov["discharged"]} '
          f'witnesses={cov["vacuity_witnesses"]["satisfied"]}/{cov["vacuity_witnesses"]["required"]} '
          f'violations={len(self.violations)} known={len(seen)} inconclusive={len(cov["inconclusive"])} '
          f'queries={s["queries"]} wall={ev["wall_s"]}s exit={code}')
    return code


def _safe(s: str) -> str:
  return ''.join(c if c.isalnum() or c in '-_.' else '_' for c in s)[:80]
