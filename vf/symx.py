"""Engine S: proxy execution of the real metric code over z3 terms.

The real functions from /repo run under the ordinary interpreter; data values are `SV`
(real value + NaN flag as z3 terms) and `SBool` proxies stored in object-dtype numpy
arrays. The module-level name `np` (and `math`) of the modules under test is rebound to
a thin facade that overrides only what breaks on object arrays. Data-dependent Python
branches (`if`, `bool()`, `int()`, hashing) go through `decide()`: a DFS explorer
re-executes the scenario once per feasible decision sequence (feasibility = z3 query
under the path condition). At the end of each path the obligations are discharged by
z3 (`unsat` of path-condition AND NOT claim); a model is turned into concrete floats and
replayed on the real code with real numpy before anything is reported.

Idealisation (stated in every evidence file): floats are reals plus an explicit NaN flag;
+-inf is not modelled (a path that would create an infinity is cut and counted).
"""
from __future__ import annotations

import contextlib
import fractions
import math as _math
import time
import types as _pytypes

import numpy as _np
import z3


class Unsupported(BaseException):
  """The scenario left the modelled fragment (e.g. produced an infinity)."""


class Infeasible(BaseException):
  pass


class PathLimit(Exception):
  pass


# ------------------------------------------------------------------------------
# explorer context
# ------------------------------------------------------------------------------
class Ctx:
  cur: 'Ctx' = None

  def __init__(self, timeout_ms=20000):
    self.solver = z3.Solver()
    self.solver.set('timeout', timeout_ms)
    self.base = []          # assumptions on inputs (always asserted)
    self.pc = []
    self.prefix = []
    self.idx = 0
    self.pending = []       # alternative prefixes discovered on this path
    self.nvars = 0
    self.vars = []          # declared input variables (name, z3 const)
    self.stats = {'queries': 0, 'sat': 0, 'unsat': 0, 'unknown': 0, 'time': 0.0, 'decisions': 0}
    self.unknown = False

  def check(self, *extra, want_model=False):
    t = time.time()
    self.solver.push()
    self.last_model = None
    try:
      for e in extra:
        self.solver.add(e)
      r = self.solver.check()
      if want_model and r == z3.sat:
        self.last_model = self.solver.model()
    finally:
      self.solver.pop()
    self.stats['queries'] += 1
    self.stats[str(r)] = self.stats.get(str(r), 0) + 1
    self.stats['time'] += time.time() - t
    if r == z3.unknown:
      self.unknown = True
    return r

  def prove(self, claim, timeout_ms=60000):
    """Discharge a claim under base+pc with a fresh NON-incremental solver (lets z3 pick nlsat for pure NRA goals).
    Returns (result, model) with result in unsat (proved) / sat (counterexample) / unknown."""
    t = time.time()
    s = z3.Solver()
    s.set('timeout', timeout_ms)
    s.add(*self.base)
    s.add(*self.pc)
    s.add(z3.Not(claim))
    r = s.check()
    self.stats['queries'] += 1
    self.stats[str(r)] = self.stats.get(str(r), 0) + 1
    self.stats['time'] += time.time() - t
    return r, (s.model() if r == z3.sat else None)

  def begin_path(self, prefix):
    self.solver.reset()
    self.solver.set('timeout', 20000)
    self.pc, self.prefix, self.idx, self.pending = [], list(prefix), 0, []
    self.nvars = 0
    self.vars = []
    self.base = []
    self._sqrt_cache = {}
    self.prefer_int = []

  def assume(self, cond):
    cond = _b(cond)
    self.base.append(cond)
    self.solver.add(cond)

  def decide(self, cond) -> bool:
    cond = z3.simplify(_b(cond))
    if z3.is_true(cond):
      return True
    if z3.is_false(cond):
      return False
    self.stats['decisions'] += 1
    if self.idx < len(self.prefix):
      val = self.prefix[self.idx]
    else:
      can_t = self.check(cond) != z3.unsat
      can_f = self.check(z3.Not(cond)) != z3.unsat
      if can_t and can_f:
        val = True
        self.pending.append(self.prefix[:self.idx] + [False])
        self.prefix.append(True)
      elif can_t:
        val = True
        self.prefix.append(True)
      elif can_f:
        val = False
        self.prefix.append(False)
      else:
        raise Infeasible()
    self.idx += 1
    c = cond if val else z3.Not(cond)
    self.pc.append(c)
    self.solver.add(c)
    return val

  # -- input declaration ---------------------------------------------------------
  def real(self, name, nan=False, lo=None, hi=None):
    v = z3.Real(name)
    self.vars.append((name, v))
    if lo is not None:
      self.assume(v >= lo)
    if hi is not None:
      self.assume(v <= hi)
    if nan:
      # explicit NaN case split: the flag is decided here, so every later count / mask is concrete on this path
      f = z3.Bool(name + '__nan')
      self.vars.append((name + '__nan', f))
      return SV(v, z3.BoolVal(self.decide(f)))
    return SV(v)

  def int(self, name, lo, hi):
    v = z3.Int(name)
    self.vars.append((name, v))
    self.assume(z3.And(v >= lo, v <= hi))
    return SV(v, isint=True, dom=(lo, hi))

  def nat(self, name):
    """Unbounded non-negative integer (e.g. a count)."""
    v = z3.Int(name)
    self.vars.append((name, v))
    self.assume(v >= 0)
    return SV(v, isint=True)

  def bool(self, name):
    v = z3.Bool(name)
    self.vars.append((name, v))
    return SBool(v)


def ctx() -> Ctx:
  return Ctx.cur


def _b(x):
  if isinstance(x, SBool):
    return x.t
  if isinstance(x, (bool, _np.bool_)):
    return z3.BoolVal(bool(x))
  return x


def _num(x):
  """python/numpy number -> z3 numeral (exact for ints, decimal repr for floats)."""
  if isinstance(x, (bool, _np.bool_)):
    return z3.RealVal(int(x))
  if isinstance(x, (int, _np.integer)):
    return z3.RealVal(int(x))
  if isinstance(x, fractions.Fraction):
    return z3.RealVal(str(x))
  return z3.RealVal(repr(float(x)))


# ------------------------------------------------------------------------------
# proxies
# ------------------------------------------------------------------------------
class SBool:
  __array_priority__ = 2000

  def __init__(self, t):
    self.t = t if z3.is_expr(t) else z3.BoolVal(bool(t))

  def __bool__(self):
    return ctx().decide(self.t)

  def __int__(self):
    return 1 if bool(self) else 0

  __index__ = __int__

  def __invert__(self): return SBool(z3.Not(self.t))
  def __and__(self, o): return SBool(z3.And(self.t, _b(lift_bool(o))))
  __rand__ = __and__
  def __or__(self, o): return SBool(z3.Or(self.t, _b(lift_bool(o))))
  __ror__ = __or__
  def __xor__(self, o): return SBool(z3.Xor(self.t, _b(lift_bool(o))))
  __rxor__ = __xor__
  def __eq__(self, o):
    if isinstance(o, (SBool, bool, _np.bool_)):
      return SBool(self.t == _b(lift_bool(o)))
    return self.sv() == o
  def __ne__(self, o): return ~(self == o)
  __hash__ = None
  def sv(self): return SV(z3.If(self.t, z3.RealVal(1), z3.RealVal(0)))
  def __add__(self, o): return self.sv() + o
  __radd__ = __add__
  def __sub__(self, o): return self.sv() - o
  def __rsub__(self, o): return o - self.sv()
  def __mul__(self, o): return self.sv() * o
  __rmul__ = __mul__
  def __truediv__(self, o): return self.sv() / o
  def __rtruediv__(self, o): return o / self.sv()
  def __gt__(self, o): return self.sv() > o
  def __ge__(self, o): return self.sv() >= o
  def __lt__(self, o): return self.sv() < o
  def __le__(self, o): return self.sv() <= o
  def __neg__(self): return -self.sv()
  def __float__(self): return float(int(self))
  def astype(self, t):
    return self.sv() if t not in (bool, _np.bool_, 'bool') else self
  def __repr__(self): return f'SBool({z3.simplify(self.t)})'


def lift_bool(o):
  if isinstance(o, SBool):
    return o
  if isinstance(o, (bool, _np.bool_)):
    return SBool(z3.BoolVal(bool(o)))
  if isinstance(o, SV):
    return o != 0
  return SBool(z3.BoolVal(bool(o)))


_FALSE = z3.BoolVal(False)
_TRUE = z3.BoolVal(True)


class SV:
  """Symbolic real value with NaN flag. `nan` is a z3 Bool (False constant when impossible)."""
  __array_priority__ = 2000

  def __init__(self, val, nan=None, isint=False, dom=None):
    self.val = val
    self.nan = _FALSE if nan is None else nan
    if z3.is_expr(self.val) and self.val.num_args() > 0 and _size_small(self.val):
      self.val = z3.simplify(self.val)
    self.isint = isint
    self.dom = dom

  # -- helpers -------------------------------------------------------------------
  @staticmethod
  def lift(o):
    if isinstance(o, SV):
      return o
    if isinstance(o, SBool):
      return o.sv()
    if isinstance(o, (bool, _np.bool_, int, _np.integer)):
      return SV(z3.RealVal(int(o)), isint=True)
    if isinstance(o, (float, _np.floating, fractions.Fraction)):
      f = float(o)
      if f != f:
        return SV(z3.RealVal(0), z3.BoolVal(True))
      if f in (float('inf'), float('-inf')):
        raise Unsupported('infinite constant')
      return SV(_num(o))
    if isinstance(o, _np.ndarray) and o.ndim == 0:
      return SV.lift(o.item())
    return NotImplemented

  def _nan_or(self, o):
    a, b = self.nan, o.nan
    if z3.is_false(a):
      return b
    if z3.is_false(b):
      return a
    if z3.is_true(a) or z3.is_true(b):
      return _TRUE
    return z3.Or(a, b)

  def _bin(self, o, f, isint=False):
    if isinstance(o, _np.ndarray) and o.ndim > 0:
      return _map(lambda e: self._bin(e, f, isint), o)
    o = SV.lift(o)
    if o is NotImplemented:
      return NotImplemented
    return SV(f(self.val, o.val), self._nan_or(o), isint=isint and self.isint and o.isint)

  def __add__(self, o): return self._bin(o, lambda a, b: a + b, True)
  __radd__ = __add__
  def __sub__(self, o): return self._bin(o, lambda a, b: a - b, True)
  def __rsub__(self, o):
    if isinstance(o, _np.ndarray) and o.ndim > 0:
      return _map(lambda e: e - self, o)
    o = SV.lift(o)
    return NotImplemented if o is NotImplemented else o - self
  def __mul__(self, o): return self._bin(o, lambda a, b: a * b, True)
  __rmul__ = __mul__
  def __neg__(self): return SV(-self.val, self.nan, self.isint)
  def __pos__(self): return self
  def __abs__(self): return SV(z3.If(self.val >= 0, self.val, -self.val), self.nan, self.isint)

  def __pow__(self, k):
    if isinstance(k, SV):
      k = k.concretize()
    if isinstance(k, (int, _np.integer)) and 0 <= int(k) <= 6:
      r = z3.RealVal(1)
      for _ in range(int(k)):
        r = r * self.val
      return SV(r, self.nan, self.isint)
    if k == 0.5:
      return sqrt(self)
    raise Unsupported(f'power {k}')

  def __truediv__(self, o):
    if isinstance(o, _np.ndarray) and o.ndim > 0:
      return _map(lambda e: self / e, o)
    o = SV.lift(o)
    if o is NotImplemented:
      return NotImplemented
    # IEEE: x/0 = +-inf (x != 0), 0/0 = NaN. Infinities are not modelled -> the path is cut.
    zero = z3.And(z3.Not(o.nan), o.val == 0)
    if ctx().decide(zero):
      if ctx().decide(z3.Or(self.nan, self.val == 0)):
        return SV(z3.RealVal(0), z3.BoolVal(True))
      raise Unsupported('division by zero produces an infinity')
    return SV(self.val / z3.ToReal(o.val) if o.val.sort() == z3.IntSort() else self.val / o.val, self._nan_or(o))

  def __rtruediv__(self, o):
    if isinstance(o, _np.ndarray) and o.ndim > 0:
      return _map(lambda e: SV.lift(e) / self, o)
    o = SV.lift(o)
    return NotImplemented if o is NotImplemented else o / self

  def __floordiv__(self, o):
    raise Unsupported('floordiv')

  # comparisons: anything compared with NaN is False (!= is True)
  def _cmp(self, o, f, ne=False):
    if isinstance(o, _np.ndarray) and o.ndim > 0:
      return _map(lambda e: self._cmp(e, f, ne), o)
    o = SV.lift(o)
    if o is NotImplemented:
      return NotImplemented
    t = f(self.val, o.val)
    n = self._nan_or(o)
    if z3.is_false(n):
      return SBool(t)
    if z3.is_true(n):
      return SBool(z3.BoolVal(ne))
    return SBool(z3.Or(n, t)) if ne else SBool(z3.And(z3.Not(n), t))

  def __lt__(self, o): return self._cmp(o, lambda a, b: a < b)
  def __le__(self, o): return self._cmp(o, lambda a, b: a <= b)
  def __gt__(self, o): return self._cmp(o, lambda a, b: a > b)
  def __ge__(self, o): return self._cmp(o, lambda a, b: a >= b)
  def __eq__(self, o): return self._cmp(o, lambda a, b: a == b)
  def __ne__(self, o): return self._cmp(o, lambda a, b: a != b, ne=True)

  def __bool__(self):
    return bool(self != 0)

  def concretize(self):
    """Fork over the feasible concrete values of an integer-valued term."""
    c = ctx()
    while True:
      if c.check(want_model=True) != z3.sat:
        raise Infeasible()
      m = c.last_model
      v = m.eval(self.val, model_completion=True)
      if c.decide(self.val == v):
        f = v.as_fraction() if not z3.is_int_value(v) else fractions.Fraction(v.as_long())
        if f.denominator != 1:
          raise Unsupported('concretising a non-integer value')
        return int(f)

  def __int__(self):
    if ctx().decide(self.nan):
      raise ValueError('cannot convert float NaN to integer')
    return self.concretize()

  __index__ = __int__

  def __hash__(self):
    return hash(self.concretize())

  def __float__(self):
    raise Unsupported('float() of a symbolic real (value would have to be enumerated)')

  def __repr__(self):
    return f'SV({z3.simplify(self.val)}{"" if self.nan is _FALSE else ", nan=" + str(z3.simplify(self.nan))})'

  # numpy scalar API bits used by the code under test
  ndim = 0
  shape = ()
  size = 1
  def item(self): return self
  def astype(self, t):
    if t in (int, 'int', _np.int64, _np.int32):
      return SV(self.val, self.nan, True)
    return self
  def copy(self): return self
  def tolist(self): return self
  @property
  def T(self): return self
  def sum(self, axis=None): return self
  def __array__(self, dtype=None, copy=None):
    a = _np.empty((), dtype=object)
    a[()] = self
    return a


def _size_small(t, lim=400):
  return len(t.sexpr()) < lim if False else True


def ite(c, x, y):
  """where() on scalars without forking."""
  c = lift_bool(c)
  x, y = SV.lift(x), SV.lift(y)
  ct = z3.simplify(c.t)
  if z3.is_true(ct):
    return x
  if z3.is_false(ct):
    return y
  nan = _FALSE if (z3.is_false(x.nan) and z3.is_false(y.nan)) else z3.If(ct, x.nan, y.nan)
  return SV(z3.If(ct, x.val, y.val), nan, x.isint and y.isint)


_SQRT = z3.Function('vf_sqrt', z3.RealSort(), z3.RealSort())
_LOG = z3.Function('vf_log', z3.RealSort(), z3.RealSort())
_EXP = z3.Function('vf_exp', z3.RealSort(), z3.RealSort())


def sqrt(x):
  x = SV.lift(x)
  c = ctx()
  neg = z3.And(z3.Not(x.nan), x.val < 0)
  if c.decide(neg):
    return SV(z3.RealVal(0), z3.BoolVal(True))
  key = z3.simplify(x.val).sexpr()
  cache = c.__dict__.setdefault('_sqrt_cache', {})
  if key not in cache:
    r = z3.Real(f'vf_sqrt_{len(cache)}')         # witness of the square root (pure NRA, no uninterpreted function)
    cache[key] = r
    c.assume(z3.Implies(x.val >= 0, z3.And(r >= 0, r * r == x.val)))
  return SV(cache[key], x.nan)


def log(x, base=None):
  x = SV.lift(x)
  c = ctx()
  if c.decide(z3.And(z3.Not(x.nan), x.val <= 0)):
    if c.decide(x.val == 0):
      raise Unsupported('log(0) = -inf')
    return SV(z3.RealVal(0), z3.BoolVal(True))
  r = _LOG(x.val)
  # monotone sign facts only (log is otherwise uninterpreted)
  c.assume(z3.And(z3.Implies(x.val == 1, r == 0), z3.Implies(x.val > 1, r > 0), z3.Implies(x.val < 1, r < 0)))
  if base is not None:
    r = r / _LOG(z3.RealVal(base))
    c.assume(_LOG(z3.RealVal(base)) > 0)
  return SV(r, x.nan)


def has_sym(x) -> bool:
  if isinstance(x, (SV, SBool)):
    return True
  if isinstance(x, _np.ndarray):
    return x.dtype == object and any(isinstance(e, (SV, SBool)) for e in x.ravel())
  if isinstance(x, (list, tuple)):
    return any(has_sym(e) for e in x)
  return False


class SArr(_np.ndarray):
  """object ndarray of proxies; astype(<numeric>) is the identity (values are already ideal reals / ints)."""

  def astype(self, dtype, *a, **k):
    if dtype is object:
      return self
    if dtype in (bool, _np.bool_, 'bool'):
      return super().astype(dtype, *a, **k)
    if any(isinstance(e, SBool) for e in self.ravel()):    # (mask).astype(int): 0/1 values, no fork
      return _map(lambda e: e.sv() if isinstance(e, SBool) else e, self)
    return self

  def __getitem__(self, key):
    if isinstance(key, _np.ndarray) and key.dtype == object and key.size and all(isinstance(e, (SBool, bool, _np.bool_)) for e in key.ravel()):
      key = _np.asarray([bool(e) for e in key.ravel()], dtype=bool).reshape(key.shape)   # boolean mask: one decision per element
    return super().__getitem__(key)


def _obj(x):
  """ndarray(object) view of array-like x (no copy for object arrays)."""
  if isinstance(x, _np.ndarray):
    a = x if x.dtype == object else _np.ndarray.astype(x, object)
  elif isinstance(x, (SV, SBool)):
    a = _np.empty((), dtype=object)
    a[()] = x
  else:
    a = _np.asarray(x, dtype=object)
  return a.view(SArr)


def _map(f, *arrs):
  arrs = _np.broadcast_arrays(*[_obj(a) for a in arrs])
  out = _np.empty(arrs[0].shape, dtype=object)
  it = _np.nditer(arrs[0], flags=['multi_index', 'refs_ok', 'zerosize_ok'])
  for _ in it:
    i = it.multi_index
    out[i] = f(*[a[i] for a in arrs])
  return out if out.ndim else out[()]


def _reduce(f, a, axis, empty):
  a = _obj(a)
  if axis is None:
    return f(list(a.ravel())) if a.size else empty
  a = _np.moveaxis(a, axis, 0)
  rest = a.shape[1:]
  out = _np.empty(rest, dtype=object)
  for idx in _np.ndindex(*rest):
    col = [a[(j,) + idx] for j in range(a.shape[0])]
    out[idx] = f(col) if col else empty
  return out if out.ndim else out[()]


def _isnan1(e):
  if isinstance(e, SV):
    return SBool(e.nan)
  if isinstance(e, SBool):
    return SBool(_FALSE)
  return SBool(z3.BoolVal(bool(e != e)))


def _sum_list(xs):
  r = xs[0]
  if isinstance(r, SBool):
    r = r.sv()
  for x in xs[1:]:
    r = r + x
  return r


class NpFacade:
  """`np` for the modules under test. Falls through to real numpy unless symbolic data is involved."""

  def __getattr__(self, name):
    return getattr(_np, name)

  # -- constructors ----------------------------------------------------------------
  def asarray(self, x, dtype=None, **kw):
    if has_sym(x):
      return x if isinstance(x, _np.ndarray) else (_obj(x) if not isinstance(x, (SV, SBool)) else x)
    return _np.asarray(x, dtype=dtype, **kw)

  def array(self, x, dtype=None, **kw):
    if has_sym(x):
      return _obj(x).copy() if not isinstance(x, (SV, SBool)) else x
    return _np.array(x, dtype=dtype, **kw)

  def copy(self, x):
    if isinstance(x, (SV, SBool)):
      return x
    return _np.copy(x)

  def zeros_like(self, a, dtype=None, **kw):
    if has_sym(a):
      if isinstance(a, (SV, SBool)):
        return SV(z3.RealVal(0))
      out = _np.empty(_obj(a).shape, dtype=object)
      out.fill(0.0)
      return out
    return _np.zeros_like(a, dtype=dtype, **kw)

  # -- predicates ------------------------------------------------------------------
  def isnan(self, x):
    if has_sym(x):
      return _map(_isnan1, x)
    return _np.isnan(x)

  def all(self, x, axis=None):
    if has_sym(x):
      return _reduce(lambda xs: SBool(z3.And(*[_b(lift_bool(e)) for e in xs])), x, axis, SBool(z3.BoolVal(True)))
    return _np.all(x, axis=axis)

  def any(self, x, axis=None):
    if has_sym(x):
      return _reduce(lambda xs: SBool(z3.Or(*[_b(lift_bool(e)) for e in xs])), x, axis, SBool(z3.BoolVal(False)))
    return _np.any(x, axis=axis)

  def array_equal(self, a, b, equal_nan=False):
    if has_sym(a) or has_sym(b):
      a, b = _obj(a), _obj(b)
      if a.shape != b.shape:
        return False
      return self.all(_map(lambda x, y: SV.lift(x) == y, a, b))
    return _np.array_equal(a, b, equal_nan=equal_nan)

  def allclose(self, a, b, **kw):
    if has_sym(a) or has_sym(b):
      return self.array_equal(a, b)
    return _np.allclose(a, b, **kw)

  # -- elementwise -----------------------------------------------------------------
  def where(self, c, x=None, y=None):
    if x is None:
      if has_sym(c):
        raise Unsupported('np.where(cond) index form on symbolic data')
      return _np.where(c)
    if has_sym(c) or has_sym(x) or has_sym(y):
      def f(ci, xi, yi):
        if isinstance(ci, SBool):
          return ite(ci, xi, yi)
        return xi if ci else yi
      return _map(f, c, x, y)
    return _np.where(c, x, y)

  def divide(self, a, b, out=None, where=True, **kw):
    if has_sym(a) or has_sym(b) or has_sym(where) or has_sym(out):
      def f(ai, bi, oi, wi):
        ai, bi = SV.lift(ai), SV.lift(bi)
        if isinstance(wi, SBool):
          safe_b = z3.If(z3.And(wi.t, bi.val != 0), bi.val, z3.RealVal(1))
          q = SV(ai.val / safe_b, ai._nan_or(bi))
          # where=True and b == 0 would be an infinity (or NaN); callers in scope always guard with b != 0
          return ite(wi, q, 0.0 if oi is None else oi)
        if wi:
          return ai / bi
        return 0.0 if oi is None else oi
      if out is None:
        out = 0.0
      return _map(f, a, b, out, where)
    return _np.divide(a, b, out=out, where=where, **kw)

  def minimum(self, a, b):
    if has_sym(a) or has_sym(b):
      return _map(lambda x, y: _minmax(x, y, True), a, b)
    return _np.minimum(a, b)

  def maximum(self, a, b):
    if has_sym(a) or has_sym(b):
      return _map(lambda x, y: _minmax(x, y, False), a, b)
    return _np.maximum(a, b)

  def abs(self, x):
    if has_sym(x):
      return _map(lambda e: abs(SV.lift(e)), x)
    return _np.abs(x)

  absolute = abs

  def logical_and(self, a, b):
    if has_sym(a) or has_sym(b):
      return _map(lambda x, y: lift_bool(x) & lift_bool(y), a, b)
    return _np.logical_and(a, b)

  def logical_or(self, a, b):
    if has_sym(a) or has_sym(b):
      return _map(lambda x, y: lift_bool(x) | lift_bool(y), a, b)
    return _np.logical_or(a, b)

  def logical_xor(self, a, b):
    if has_sym(a) or has_sym(b):
      return _map(lambda x, y: lift_bool(x) ^ lift_bool(y), a, b)
    return _np.logical_xor(a, b)

  def logical_not(self, a):
    if has_sym(a):
      return _map(lambda x: ~lift_bool(x), a)
    return _np.logical_not(a)

  def argsort(self, a, axis=-1, **kw):
    if has_sym(a):
      a = _obj(a)
      if a.ndim != 1:
        raise Unsupported('argsort of a symbolic array with ndim != 1')
      import functools
      def cmp(i, j):     # stable: ties keep index order; every comparison is a decision
        if bool(SV.lift(a[i]) < a[j]):
          return -1
        if bool(SV.lift(a[j]) < a[i]):
          return 1
        return i - j
      return _np.asarray(sorted(range(a.shape[0]), key=functools.cmp_to_key(cmp)))
    return _np.argsort(a, axis=axis, **kw)

  def concatenate(self, arrs, axis=0, **kw):
    if any(has_sym(x) for x in arrs):
      return _np.concatenate([_obj(x) for x in arrs], axis=axis).view(SArr)
    return _np.concatenate(arrs, axis=axis, **kw)

  def ones_like(self, a, dtype=None, **kw):
    if has_sym(a):
      out = _np.empty(_obj(a).shape, dtype=object)
      out.fill(1.0)
      return out.view(SArr)
    return _np.ones_like(a, dtype=dtype, **kw)

  def sqrt(self, x):
    if has_sym(x):
      return _map(sqrt, x)
    return _np.sqrt(x)

  def log(self, x):
    if has_sym(x):
      return _map(log, x)
    return _np.log(x)

  def log2(self, x):
    if has_sym(x):
      return _map(lambda e: log(e, 2), x)
    return _np.log2(x)

  # -- reductions ------------------------------------------------------------------
  def sum(self, x, axis=None, **kw):
    if has_sym(x):
      return _reduce(_sum_list, x, axis, 0)
    return _np.sum(x, axis=axis, **kw)

  def mean(self, x, axis=None, **kw):
    if has_sym(x):
      a = _obj(x)
      n = a.size if axis is None else a.shape[axis]
      s = _reduce(_sum_list, a, axis, 0)
      if n == 0:
        return float('nan')
      return s / n if not isinstance(s, _np.ndarray) else _map(lambda e: SV.lift(e) / n, s)
    return _np.mean(x, axis=axis, **kw)

  def nanmean(self, x, axis=None, **kw):
    if has_sym(x):
      def f(xs):
        xs = [SV.lift(e) for e in xs]
        tot = _sum_list([ite(SBool(e.nan), 0, SV(e.val)) for e in xs])
        cnt = _sum_list([ite(SBool(e.nan), 0, 1) for e in xs])
        safe = z3.If(cnt.val == 0, z3.RealVal(1), cnt.val)
        return SV(tot.val / safe, z3.simplify(cnt.val == 0))
      return _reduce(f, x, axis, float('nan'))
    return _np.nanmean(x, axis=axis, **kw)

  def nanvar(self, x, axis=None, **kw):
    if has_sym(x):
      def f(xs):
        xs = [SV.lift(e) for e in xs]
        tot = _sum_list([ite(SBool(e.nan), 0, SV(e.val)) for e in xs])
        cnt = _sum_list([ite(SBool(e.nan), 0, 1) for e in xs])
        safe = z3.If(cnt.val == 0, z3.RealVal(1), cnt.val)
        mu = tot.val / safe
        sq = _sum_list([ite(SBool(e.nan), 0, SV((e.val - mu) * (e.val - mu))) for e in xs])
        return SV(sq.val / safe, z3.simplify(cnt.val == 0))
      return _reduce(f, x, axis, float('nan'))
    return _np.nanvar(x, axis=axis, **kw)

  def min(self, x, axis=None, **kw):
    if has_sym(x):
      def f(xs):
        r = xs[0]
        for e in xs[1:]:
          r = self.minimum(r, e)
        return r
      return _reduce(f, x, axis, None)
    return _np.min(x, axis=axis, **kw)

  def max(self, x, axis=None, **kw):
    if has_sym(x):
      def f(xs):
        r = xs[0]
        for e in xs[1:]:
          r = self.maximum(r, e)
        return r
      return _reduce(f, x, axis, None)
    return _np.max(x, axis=axis, **kw)

  amin, amax = min, max

  def histogram(self, a, bins=10, range=None, weights=None, **kw):
    if has_sym(a) or has_sym(weights):
      if range is None and isinstance(bins, (int, _np.integer)):
        raise Unsupported('np.histogram with data dependent bin edges')
      _, edges = _np.histogram((), bins=bins, range=range)
      xs = list(_obj(a).ravel())
      ws = [1] * len(xs) if weights is None else list(_obj(weights).ravel())
      hist = _np.empty(len(edges) - 1, dtype=object)
      for j in _np.arange(len(edges) - 1):
        lo, hi = float(edges[j]), float(edges[j + 1])
        last = j == len(edges) - 2
        terms = []
        for x, w in zip(xs, ws):
          x = SV.lift(x)
          inside = (x >= lo) & ((x <= hi) if last else (x < hi))
          terms.append(ite(inside, w, 0))
        hist[j] = _sum_list(terms) if terms else 0
      return hist, edges
    return _np.histogram(a, bins=bins, range=range, weights=weights, **kw)


def _is_inf(x):
  return isinstance(x, (float, _np.floating)) and x in (float('inf'), float('-inf'))


def _minmax(x, y, is_min):
  """np.minimum / np.maximum on scalars: NaN propagates; a concrete +-inf operand is absorbed exactly."""
  for a, b in ((x, y), (y, x)):
    if _is_inf(a):
      pos = a > 0
      if pos == is_min:          # min(+inf, b) = b ; max(-inf, b) = b
        return b
      raise Unsupported('infinite result of min/max')
  x, y = SV.lift(x), SV.lift(y)
  r = ite((x <= y) if is_min else (x >= y), x, y)
  nan = x._nan_or(y)
  if z3.is_false(nan):
    return r
  return SV(r.val, nan, r.isint)


class MathFacade:

  def __getattr__(self, name):
    return getattr(_math, name)

  def isclose(self, a, b, rel_tol=1e-09, abs_tol=0.0):
    if isinstance(a, (SV, SBool)) or isinstance(b, (SV, SBool)):
      a, b = SV.lift(a), SV.lift(b)
      d = abs(a - b)
      m = ite(abs(a) >= abs(b), abs(a), abs(b))
      lim = m * rel_tol
      lim = ite(lim >= abs_tol, lim, abs_tol)
      return (d <= lim) | (a == b)
    return _math.isclose(a, b, rel_tol=rel_tol, abs_tol=abs_tol)

  def isnan(self, x):
    if isinstance(x, SV):
      return SBool(x.nan)
    return _math.isnan(x)

  def sqrt(self, x):
    if isinstance(x, (SV, SBool)):
      return sqrt(x)
    return _math.sqrt(x)


@contextlib.contextmanager
def patched(*modules):
  """Rebinds `np` / `math` in the given modules to the facades for the duration of the block."""
  saved = []
  fac, mfac = NpFacade(), MathFacade()
  if getattr(Ctx.cur, 'concrete', False):      # concrete replay: the real numpy, nothing rebound
    modules = ()
  for m in modules:
    for name, repl in (('np', fac), ('math', mfac)):
      if hasattr(m, name) and isinstance(getattr(m, name), _pytypes.ModuleType):
        saved.append((m, name, getattr(m, name)))
        setattr(m, name, repl)
  try:
    yield
  finally:
    for m, name, old in saved:
      setattr(m, name, old)


# ------------------------------------------------------------------------------
# structural equality of results as a z3 claim
# ------------------------------------------------------------------------------
def eq_claim(a, b):
  """z3 Bool: results a and b are equal (NaN == NaN; numbers compared exactly over the reals)."""
  import dataclasses
  if isinstance(a, (SV, SBool)) or isinstance(b, (SV, SBool)):
    if isinstance(a, SBool) and isinstance(b, (SBool, bool, _np.bool_)):
      return a.t == _b(lift_bool(b))
    if isinstance(b, SBool) and isinstance(a, (bool, _np.bool_)):
      return b.t == _b(lift_bool(a))
    a, b = SV.lift(a), SV.lift(b)
    if a is NotImplemented or b is NotImplemented:
      return z3.BoolVal(False)
    return z3.Or(z3.And(a.nan, b.nan), z3.And(z3.Not(a.nan), z3.Not(b.nan), a.val == b.val))
  if isinstance(a, _np.ndarray) or isinstance(b, _np.ndarray):
    a, b = _obj(a), _obj(b)
    if a.shape != b.shape:
      return z3.BoolVal(False)
    return z3.And(*([eq_claim(x, y) for x, y in zip(a.ravel(), b.ravel())] or [z3.BoolVal(True)]))
  if isinstance(a, dict) and isinstance(b, dict):
    if set(map(_key, a)) != set(map(_key, b)):
      return z3.BoolVal(False)
    bb = {_key(k): v for k, v in b.items()}
    return z3.And(*([eq_claim(v, bb[_key(k)]) for k, v in a.items()] or [z3.BoolVal(True)]))
  if isinstance(a, (list, tuple)) and isinstance(b, (list, tuple)):
    if len(a) != len(b):
      return z3.BoolVal(False)
    return z3.And(*([eq_claim(x, y) for x, y in zip(a, b)] or [z3.BoolVal(True)]))
  if dataclasses.is_dataclass(a) and type(a) is type(b):
    fs = [f.name for f in dataclasses.fields(a) if f.compare]
    return z3.And(*([eq_claim(getattr(a, f), getattr(b, f)) for f in fs] or [z3.BoolVal(True)]))
  if isinstance(a, (int, float, _np.number)) and isinstance(b, (int, float, _np.number)):
    fa, fb = float(a), float(b)   # both concrete: the only place where rounding can show up -> tolerance
    return z3.BoolVal((fa != fa and fb != fb) or fa == fb or abs(fa - fb) <= 1e-9 * max(1.0, abs(fa), abs(fb)))
  try:
    return z3.BoolVal(bool(a == b))
  except Exception:  # pylint: disable=broad-exception-caught
    return z3.BoolVal(False)


def _key(k):
  return k if not isinstance(k, SV) else ('sv', str(k.val))


def concrete_close(a, b, tol=1e-6) -> bool:
  """Tolerance comparison of two concrete result structures (replay side)."""
  import dataclasses
  if isinstance(a, _np.ndarray) or isinstance(b, _np.ndarray):
    try:
      a, b = _np.asarray(a), _np.asarray(b)
      if a.shape != b.shape:
        return False
      if a.dtype == object or b.dtype == object:
        return all(concrete_close(x, y, tol) for x, y in zip(a.ravel(), b.ravel()))
      return bool(_np.allclose(a.astype(float), b.astype(float), rtol=tol, atol=tol, equal_nan=True))
    except (TypeError, ValueError):
      return False
  if isinstance(a, dict) and isinstance(b, dict):
    return set(a) == set(b) and all(concrete_close(a[k], b[k], tol) for k in a)
  if isinstance(a, (list, tuple)) and isinstance(b, (list, tuple)):
    return len(a) == len(b) and all(concrete_close(x, y, tol) for x, y in zip(a, b))
  if dataclasses.is_dataclass(a) and type(a) is type(b):
    return all(concrete_close(getattr(a, f.name), getattr(b, f.name), tol) for f in dataclasses.fields(a) if f.compare)
  if isinstance(a, (int, float, _np.number)) and isinstance(b, (int, float, _np.number)):
    fa, fb = float(a), float(b)
    if fa != fa or fb != fb:
      return fa != fa and fb != fb
    return abs(fa - fb) <= tol * max(1.0, abs(fa), abs(fb))
  try:
    return bool(a == b)
  except Exception:  # pylint: disable=broad-exception-caught
    return False


# ------------------------------------------------------------------------------
# driver
# ------------------------------------------------------------------------------
class PathResult:

  def __init__(self):
    self.paths = 0
    self.cut = 0            # paths that left the modelled fragment (infinities ...)
    self.cut_reasons = {}
    self.infeasible = 0
    self.failed = []        # (obligation name, model dict, prefix)
    self.unknown = []
    self.discharged = 0
    self.claims = 0
    self.stats = None


def explore(scenario, max_paths=2000, timeout_s=600) -> PathResult:
  """scenario(ctx) declares inputs through ctx and returns a list of (name, z3 Bool claim).

  Explores every feasible decision sequence; for each path proves every claim under the path condition."""
  res = PathResult()
  c = Ctx()
  old, Ctx.cur = Ctx.cur, c
  t0 = time.time()
  stack = [[]]
  try:
    while stack:
      if res.paths + res.cut >= max_paths or time.time() - t0 > timeout_s:
        res.unknown.append(f'path/time budget exhausted after {res.paths} paths ({len(stack)} prefixes pending)')
        break
      prefix = stack.pop()
      c.begin_path(prefix)
      try:
        claims = scenario(c)
      except Infeasible:
        res.infeasible += 1
        stack.extend(c.pending)
        continue
      except Unsupported as e:
        res.cut += 1
        res.cut_reasons[str(e)] = res.cut_reasons.get(str(e), 0) + 1
        stack.extend(c.pending)
        continue
      stack.extend(c.pending)
      res.paths += 1
      for name, claim in claims:
        res.claims += 1
        claim = z3.simplify(_b(claim))
        if z3.is_true(claim):
          res.discharged += 1
          continue
        r = c.check(z3.Not(claim), want_model=True)
        m = c.last_model
        if r == z3.unknown:
          r, m = c.prove(claim)
        if r == z3.sat and getattr(c, 'prefer_int', None):
          # counts: prefer an integer-valued witness when one exists (the claim was stated over the reals)
          r2 = c.check(z3.Not(claim), *[z3.IsInt(v) for v in c.prefer_int], want_model=True)
          if r2 == z3.sat:
            m = c.last_model
        if r == z3.unsat:
          res.discharged += 1
        elif r == z3.sat:
          vals = {}
          for vn, v in c.vars:
            ev = m.eval(v, model_completion=True)
            if z3.is_bool(ev):
              vals[vn] = z3.is_true(ev)
            elif z3.is_int_value(ev):
              vals[vn] = ev.as_long()
            elif z3.is_rational_value(ev):
              vals[vn] = float(ev.as_fraction())
            elif z3.is_algebraic_value(ev):
              vals[vn] = float(ev.approx(12).as_fraction())
            else:
              vals[vn] = str(ev)
          res.failed.append((name, vals, list(c.prefix[:c.idx])))
        else:
          res.unknown.append(f'{name}: solver returned unknown')
  finally:
    Ctx.cur = old
  res.stats = c.stats
  return res
