"""Engine B, back end: goto IR of several threads -> macro-step transition relation -> bounded model checking (z3, QF_BV).

* a context switch is possible only in front of a *pre-emption point* (PP): blocking acquire, wake-up after a
  condition wait, queue operation / iterator step / field access that is not protected by a common lock
  (static must-lockset analysis), join, thread start;
* the code between two PPs of a thread is executed symbolically at encode time (branches merged with ite);
* one scheduler variable per step chooses the thread (or a stutter step when nothing can run);
* configuration parameters (buffer capacity, batch size, blocking flag, failure / stop positions, timeout
  configured or not) are symbolic bit-vectors of the same query;
* queries at depth K:  deadlock (someone not finished, nobody enabled), property violation in a final state,
  and the unwinding query "somebody still enabled at K" (must be unsat, otherwise K is too small);
* peephole partial-order reduction: two adjacent independent macro-steps must be scheduled in thread order.
"""
from __future__ import annotations

import time

import z3

from . import pybmc_front as F

W = 8
PCW = 12
NOTIFIED = 255


def BV(x, w=W):
  return z3.BitVecVal(x, w)


class Unsupported(Exception):
  pass


class System:

  def __init__(self):
    self.objects = {}       # name -> ObjSpec
    self.threads = []       # Program
    self.locks = {}         # id -> 'lock' | 'rlock'
    self.conds = {}         # id -> lock id
    self.queues = {}        # id -> dict(cap=<param name | int>, max=int)
    self.iters = {}         # id -> dict(n=<param|int>, base=int, ret=int, fail=<param|None>, nofail=int)
    self.logs = {}          # name -> capacity
    self.params = {}        # name -> (lo, hi)
    self.timeout = 0        # param name or 0/1
    self.started = {}       # thread index -> bool (False: started by a tstart instruction)
    self.thread_ids = {}    # thread prim id -> thread index


# ------------------------------------------------------------------------------------------------
class Encoder:

  def __init__(self, sysm: System):
    self.s = sysm
    self.n = len(sysm.threads)
    self.P = {name: z3.BitVec(f'P.{name}', W) for name in sysm.params}
    self.analyse()

  # ---- static analysis: must-locksets, racy resources, pre-emption points ------------------------------
  def resources(self, ins):
    """(reads, writes) of shared resources by one instruction."""
    R, Wr = set(), set()
    def ex(e):
      if not isinstance(e, tuple):
        return
      if e[0] == 'g':
        R.add(('g', e[1], e[2].split('[')[0].split('.')[0] if False else e[2]))
      elif e[0] in ('qempty',):
        R.add(('Q', e[1]))
      elif e[0] == 'locked':
        R.add(('L', e[1]))
      elif e[0] == 'alive':
        R.add(('T', e[1]))
      else:
        for x in e[1:]:
          ex(x)
    op = ins['op']
    for k in ('e', 'tag', 'kind', 'val', 'exc'):
      v = ins.get(k)
      if isinstance(v, tuple):
        ex(v)
      elif isinstance(v, F.Val):
        for c in v.c.values():
          ex(c)
    if op == 'set' and ins['dst'][0] == 'g':
      Wr.add(('g', ins['dst'][1], ins['dst'][2]))
    if op in ('lappend', 'lpopleft') and ins['var'][0] == 'g':
      Wr.add(('g', ins['var'][1], ins['var'][2]))
    if op == 'retadd':
      Wr.add(('g', ins['obj'], ins['field']))
    if op in ('qget', 'qput'):
      Wr.add(('Q', ins['q']))
    if op == 'next':
      Wr.add(('I', ins['it']))
    if op in ('acq', 'tryacq', 'rel'):
      Wr.add(('L', ins['lock']))
    if op in ('wait', 'wake'):
      Wr.add(('L', ins['lock'])); Wr.add(('C', ins['cond']))
    if op == 'notify':
      Wr.add(('C', ins['cond']))
    if op == 'tstart':
      Wr.add(('T', ins['thread']))
    if op == 'join':
      for t in ins['threads']:
        R.add(('T', t))
    if op in ('halt', 'died'):
      Wr.add(('T', 'self'))
    return R, Wr

  @staticmethod
  def canon(r):
    if r[0] == 'g':
      f = r[2]
      for sfx in ('.val', '.cnt'):
        if f.endswith(sfx):
          f = f[:-len(sfx)]
      if '[' in f:
        f = f[:f.index('[')]
      return ('g', r[1], f)
    return r

  def find_cycle_without_pp(self, prog, pps, tid):
    """Returns the head (smallest pc) of a control-flow cycle that contains no pre-emption point, or None."""
    n = len(prog.ins)
    color = {}
    for root in range(n):
      if root in color or root in pps:
        continue
      stack = [(root, iter(self.succs_all(prog, root)))]
      color[root] = 1
      path = [root]
      while stack:
        node, it = stack[-1]
        adv = False
        for nx in it:
          if nx >= n or nx in pps:
            continue
          if color.get(nx) == 1:
            return min(path[path.index(nx):])
          if nx not in color:
            color[nx] = 1
            path.append(nx)
            stack.append((nx, iter(self.succs_all(prog, nx))))
            adv = True
            break
        if not adv:
          color[node] = 2
          path.pop()
          stack.pop()
    return None

  def reads_lock_state(self, ins):
    R, _ = self.resources(ins)
    return ins['op'] == 'set' and any(r[0] == 'L' for r in R)

  def single_racy(self, ins):
    R, Wr = self.resources(ins)
    return len({self.canon(r) for r in (R | Wr) if r[0] not in ('L', 'C', 'T')}) <= 1

  def is_companion(self, prog, pc):
    """True if this instruction only moves the second component (.val/.cnt/[i]) of a value whose first component
    was moved by the directly preceding instruction (one python-level load/store of an object reference)."""
    ins = prog.ins[pc]
    if ins['op'] != 'set' or pc == 0:
      return False
    prev = prog.ins[pc - 1]
    if prev['op'] != 'set':
      return False
    def comp(x):
      return isinstance(x, tuple) and x[0] == 'g' and (x[2].endswith('.val') or x[2].endswith('.cnt'))
    def base(x):
      return self.canon(x) if isinstance(x, tuple) and x[0] == 'g' else None
    if comp(ins['e']) and base(prev['e']) == base(ins['e']):
      return True
    if comp(ins['dst']) and base(prev['dst']) == base(ins['dst']):
      return True
    return False

  def succs(self, prog, pc):
    ins = prog.ins[pc]
    op = ins['op']
    L = prog.labels
    if op == 'br':
      if ins['e'] == ('const', 1):
        return [L[ins['t']]]
      if ins['e'] == ('const', 0):
        return [L[ins['f']]]
      return [L[ins['t']], L[ins['f']]]
    if op == 'jmp':
      return [L[ins['t']]]
    if op == 'halt':
      return []
    if op == 'qget':
      return [L[ins['ok']], L[ins['empty']]]
    if op == 'qput':
      return [L[ins['ok']], L[ins['full']]]
    if op == 'next':
      if self.s.iters[ins['it']].get('fail') is None:
        return [L[ins['ok']], L[ins['stop']]]        # an iterator that cannot fail has no error edge
      return [L[ins['ok']], L[ins['stop']], L[ins['err']]]
    return [pc + 1]

  def analyse(self):
    s = self.s
    # 1. must-lockset (count per lock, meet = min) by forward data flow per thread
    self.lockset = []
    for prog in s.threads:
      n = len(prog.ins)
      TOP = None
      st = [TOP] * n
      st[0] = {}
      work = [0]
      while work:
        pc = work.pop()
        cur = dict(st[pc])
        ins = prog.ins[pc]
        if ins['op'] == 'acq':
          cur[ins['lock']] = cur.get(ins['lock'], 0) + 1
        elif ins['op'] == 'rel':
          if cur.get(ins['lock'], 0) > 0:
            cur[ins['lock']] -= 1
        elif ins['op'] == 'tryacq':
          pass                      # may or may not hold: not counted as held (sound: fewer locks assumed)
        for nx in self.succs(prog, pc):
          if nx >= n:
            continue
          if st[nx] is TOP:
            st[nx] = dict(cur); work.append(nx)
          else:
            new = {k: min(v, cur.get(k, 0)) for k, v in st[nx].items() if min(v, cur.get(k, 0)) > 0}
            if new != {k: v for k, v in st[nx].items() if v > 0}:
              st[nx] = new; work.append(nx)
      self.lockset.append([({k for k, v in x.items() if v > 0} if x is not None else set()) for x in st])
    # 2. racy accesses: an access is racy iff some other thread has a conflicting access (one of the two is a write)
    #    whose must-lockset is disjoint from this one's. Statically unreachable instructions do not count.
    self.reach = []
    for prog in s.threads:
      seen, work = set(), [0]
      while work:
        pc = work.pop()
        if pc in seen or pc >= len(prog.ins):
          continue
        seen.add(pc)
        work.extend(self.succs(prog, pc))
      self.reach.append(seen)
    acc = {}
    for tid, prog in enumerate(s.threads):
      for pc, ins in enumerate(prog.ins):
        if pc not in self.reach[tid]:
          continue
        R, Wr = self.resources(ins)
        for r in R | Wr:
          if r[0] in ('L', 'C', 'T'):
            continue
          acc.setdefault(self.canon(r), []).append((tid, pc, r in Wr, frozenset(self.lockset[tid][pc])))
    self.acc = acc
    self.racy = set()
    self.racy_at = set()
    for r, lst in acc.items():
      for (t1, pc1, w1, l1) in lst:
        for (t2, pc2, w2, l2) in lst:
          if t1 != t2 and (w1 or w2) and not (l1 & l2):
            self.racy_at.add((t1, pc1)); self.racy.add(r)
            break
    # 3. pre-emption points
    self.pp = []
    for tid, prog in enumerate(s.threads):
      pps = set([0])
      for pc, ins in enumerate(prog.ins):
        op = ins['op']
        if pc not in self.reach[tid]:
          continue
        if op == 'acq':
          if ins['lock'] in self.lockset[tid][pc] and s.locks[ins['lock']] == 'rlock':
            continue                # re-entrant acquire of a lock we certainly hold
          pps.add(pc)
        elif op in ('wake', 'tryacq', 'join', 'tstart', 'halt', 'next'):
          pps.add(pc)
        elif self.reads_lock_state(ins):
          pps.add(pc)
        elif (tid, pc) in self.racy_at:
          # the .val / .cnt component of a reference read/write belongs to the same atomic python operation
          if self.is_companion(prog, pc):
            continue
          pps.add(pc)
      # Lipton reduction: an acquire is a right mover. A racy access that is the first non-mover after an
      # acquire (on every path) belongs to the same atomic step as that acquire and needs no pre-emption point.
      n = len(prog.ins)
      phase = [None] * n            # True: only right movers since the last PP which was an acquire
      phase[0] = False
      work = [0]
      while work:
        pc = work.pop()
        ins = prog.ins[pc]
        cur = phase[pc]
        if pc in pps:
          out = ins['op'] in ('acq',)
          if ins['op'] not in ('acq',) and (tid, pc) in self.racy_at:
            out = False
        elif (tid, pc) in self.racy_at or ins['op'] in ('rel', 'wait', 'notify', 'qget', 'qput', 'next', 'tryacq'):
          out = False
        else:
          out = cur
        for nx in self.succs(prog, pc):
          if nx >= n:
            continue
          new = out if phase[nx] is None else (phase[nx] and out)
          if new != phase[nx]:
            phase[nx] = new
            work.append(nx)
      merged = {pc for pc in pps if pc != 0 and (tid, pc) in self.racy_at and prog.ins[pc]['op'] in ('set', 'qget', 'qput', 'lappend', 'lpopleft', 'retadd')
                and phase[pc] is True and self.single_racy(prog.ins[pc])}
      pps -= merged
      # every cycle of the control flow graph must contain a PP (macro-steps are loop free): break remaining cycles
      self.loop_pps = getattr(self, 'loop_pps', set())
      while True:
        cyc = self.find_cycle_without_pp(prog, pps, tid)
        if cyc is None:
          break
        pps.add(cyc)
        self.loop_pps.add((tid, cyc))
      self.pp.append(sorted(pps))
    self.halts = [[pc for pc, ins in enumerate(p.ins) if ins['op'] == 'halt'] for p in s.threads]
    # 4. locals that are live across a pre-emption point are the only locals kept in the state vector
    self.state_locals = []
    for tid, prog in enumerate(s.threads):
      n = len(prog.ins)
      use, dfn = [set() for _ in range(n)], [set() for _ in range(n)]
      for pc, ins in enumerate(prog.ins):
        u, d = self.use_def(ins)
        use[pc], dfn[pc] = u, d
      live = [set() for _ in range(n + 1)]
      changed = True
      while changed:
        changed = False
        for pc in range(n - 1, -1, -1):
          out = set()
          for nx in self.succs(prog, pc):
            if nx < n:
              out |= live[nx]
          new = use[pc] | (out - dfn[pc])
          if new != live[pc]:
            live[pc] = new; changed = True
      keep = set()
      for pc in self.pp[tid]:
        keep |= live[pc]
      self.state_locals.append(keep)

  def use_def(self, ins):
    u, d = set(), set()
    def ex(e):
      if isinstance(e, tuple):
        if e and e[0] == 'l':
          u.add(e[1])
        for x in e[1:]:
          ex(x)
      elif isinstance(e, F.Val):
        for c in e.c.values():
          ex(c)
    op = ins['op']
    for k, v in ins.items():
      if k in ('dst', 'op', 'line', 't', 'f', 'ok', 'empty', 'full', 'stop', 'err', 'exk', 'exv', 'var'):
        continue
      ex(v)
    if 'dst' in ins and ins['dst'][0] == 'l':
      d.add(ins['dst'][1])
    if op == 'next':
      d.add(ins['exk'][1]); d.add(ins['exv'][1])
    if op in ('lappend', 'lpopleft') and ins['var'][0] == 'l':
      base = ins['var'][1]
      names = [base] + [base + f'[{i}]' for i in range(F.LIST_CAP)]
      u.update(names)               # read-modify-write: never counts as a kill
    return u, d

  # ---- state -----------------------------------------------------------------------------------
  def mk_state(self, t):
    s, st = self.s, {}
    def v(key, name, w=W):
      st[key] = z3.BitVec(f'{name}@{t}', w)
    for oname, spec in s.objects.items():
      for f, desc in spec.fields.items():
        ty = desc[0]
        v(('g', oname, f), f'{oname}.{f}')
        if ty == 'exc':
          v(('g', oname, f + '.val'), f'{oname}.{f}.val')
        if ty == 'retset':
          v(('g', oname, f + '.cnt'), f'{oname}.{f}.cnt')
        if ty == 'list':
          for i in range(F.LIST_CAP):
            v(('g', oname, f + f'[{i}]'), f'{oname}.{f}[{i}]')
    for tid, prog in enumerate(s.threads):
      for name in prog.locals:
        if name in self.state_locals[tid]:
          v(('l', tid, name), f'{name}.t{tid}')
      v(('pc', tid), f'pc.t{tid}', PCW)
      v(('started', tid), f'started.t{tid}')
      v(('died', tid), f'died.t{tid}')
    for l in s.locks:
      v(('own', l), f'own.{l}'); v(('cnt', l), f'cnt.{l}')
    for c in s.conds:
      for tid in range(self.n):
        v(('w', c, tid), f'w.{c}.{tid}'); v(('sv', c, tid), f'sv.{c}.{tid}')
    v('ticket', 'ticket')
    for q, d in s.queues.items():
      for j in range(d['max']):
        v(('q', q, j), f'q.{q}.{j}')
      v(('qlen', q), f'qlen.{q}')
    for it in s.iters:
      v(('it', it), f'it.{it}')
    for lg, cap in s.logs.items():
      for j in range(cap):
        for comp in ('tag', 'kind', 'val'):
          v(('log', lg, j, comp), f'log.{lg}.{j}.{comp}')
      v(('loglen', lg), f'loglen.{lg}')
    return st

  def init(self, st):
    s, cs = self.s, []
    for oname, spec in s.objects.items():
      for f, desc in spec.fields.items():
        ty, init = desc[0], desc[1]
        cs.append(st[('g', oname, f)] == self.param_or_const(init))
        for sub in ('.val', '.cnt'):
          if ('g', oname, f + sub) in st:
            cs.append(st[('g', oname, f + sub)] == 0)
        if ty == 'list':
          for i in range(F.LIST_CAP):
            cs.append(st[('g', oname, f + f'[{i}]')] == 0)
    for tid, prog in enumerate(s.threads):
      for name, (ty, init) in prog.locals.items():
        if ('l', tid, name) in st:
          cs.append(st[('l', tid, name)] == init)
      cs.append(st[('pc', tid)] == 0)
      cs.append(st[('started', tid)] == (1 if s.started.get(tid, True) else 0))
      cs.append(st[('died', tid)] == 0)
    for l in s.locks:
      cs += [st[('own', l)] == 255, st[('cnt', l)] == 0]
    for c in s.conds:
      for tid in range(self.n):
        cs += [st[('w', c, tid)] == 0, st[('sv', c, tid)] == 0]
    cs.append(st['ticket'] == 1)
    for q, d in s.queues.items():
      for j in range(d['max']):
        cs.append(st[('q', q, j)] == 0)
      cs.append(st[('qlen', q)] == 0)
    for it in s.iters:
      cs.append(st[('it', it)] == 0)
    for lg, cap in s.logs.items():
      for j in range(cap):
        for comp in ('tag', 'kind', 'val'):
          cs.append(st[('log', lg, j, comp)] == 0)
      cs.append(st[('loglen', lg)] == 0)
    for name, (lo, hi) in s.params.items():
      cs += [z3.UGE(self.P[name], lo), z3.ULE(self.P[name], hi)]
    return cs

  def param_or_const(self, x):
    if isinstance(x, str):
      return self.P[x]
    return BV(int(x))

  # ---- expressions --------------------------------------------------------------------------------
  def ev(self, e, st, tid):
    k = e[0]
    if k == 'const':
      return BV(e[1] & 0xFF)
    if k == 'l':
      return st[('l', tid, e[1])]
    if k == 'g':
      return st[('g', e[1], e[2])]
    if k == 'param':
      return self.P[e[1]]
    if k == 'not':
      return self.b2v(z3.Not(self.tr(self.ev(e[1], st, tid))))
    if k == 'ite':
      return z3.If(self.tr(self.ev(e[1], st, tid)), self.ev(e[2], st, tid), self.ev(e[3], st, tid))
    if k == 'qempty':
      return self.b2v(st[('qlen', e[1])] == 0)
    if k == 'locked':
      return self.b2v(st[('own', e[1])] != 255)
    if k == 'alive':
      t = self.s.thread_ids[e[1]]
      return self.b2v(z3.And(st[('started', t)] == 1, z3.Not(self.halted(t, st))))
    if k == 'op':
      o = e[1]
      a = self.ev(e[2], st, tid)
      b = self.ev(e[3], st, tid)
      if o == '+': return a + b
      if o == '-': return a - b
      if o == '*': return a * b
      if o == '==': return self.b2v(a == b)
      if o == '!=': return self.b2v(a != b)
      if o == '<': return self.b2v(a < b)          # signed compare: values are small non-negative, -1 used for "unlimited"
      if o == '<=': return self.b2v(a <= b)
      if o == '>': return self.b2v(a > b)
      if o == '>=': return self.b2v(a >= b)
      if o == 'and': return self.b2v(z3.And(self.tr(a), self.tr(b)))
      if o == 'or': return self.b2v(z3.Or(self.tr(a), self.tr(b)))
      if o == 'min': return z3.If(a < b, a, b)
      if o == 'max': return z3.If(a > b, a, b)
    raise Unsupported(f'expression {e}')

  @staticmethod
  def tr(v):
    return v != 0

  @staticmethod
  def b2v(b):
    return z3.If(b, BV(1), BV(0))

  def halted(self, tid, st):
    return z3.Or(*[st[('pc', tid)] == BV(h, PCW) for h in self.halts[tid]]) if self.halts[tid] else z3.BoolVal(False)

  # ---- one instruction on a symbolic state dict -----------------------------------------------------------
  def step1(self, tid, pc, st, choice):
    prog = self.s.threads[tid]
    ins = prog.ins[pc]
    op = ins['op']
    L = prog.labels
    st = dict(st)
    def setv(dst, val):
      if dst[0] == 'l':
        st[('l', tid, dst[1])] = val
      else:
        st[('g', dst[1], dst[2])] = val
    if op == 'set':
      setv(ins['dst'], self.ev(ins['e'], st, tid))
      return [(None, st, pc + 1)]
    if op == 'br':
      c = self.tr(self.ev(ins['e'], st, tid))
      return [(c, st, L[ins['t']]), (z3.Not(c), st, L[ins['f']])]
    if op == 'jmp':
      return [(None, st, L[ins['t']])]
    if op == 'acq':
      l = ins['lock']
      st[('own', l)] = BV(tid); st[('cnt', l)] = st[('cnt', l)] + 1
      return [(None, st, pc + 1)]
    if op == 'tryacq':
      l = ins['lock']
      free = z3.Or(st[('own', l)] == 255, z3.And(st[('own', l)] == tid, self.s.locks[l] == 'rlock')) if self.s.locks[l] == 'rlock' else (st[('own', l)] == 255)
      own, cnt = st[('own', l)], st[('cnt', l)]
      st[('own', l)] = z3.If(free, BV(tid), own)
      st[('cnt', l)] = z3.If(free, cnt + 1, cnt)
      setv(ins['dst'], self.b2v(free))
      return [(None, st, pc + 1)]
    if op == 'rel':
      l = ins['lock']
      own, cnt = st[('own', l)], st[('cnt', l)]
      # releasing a lock that is not held raises RuntimeError in python; modelled as thread death marker
      if self.s.locks[l] == 'lock':
        # threading.Lock is not owned: any thread may release it; releasing an unlocked lock raises RuntimeError
        st[('own', l)] = BV(255)
        st[('cnt', l)] = BV(0)
        st[('died', tid)] = z3.If(cnt == 0, BV(2), st[('died', tid)])
      else:
        st[('own', l)] = z3.If(cnt == 1, BV(255), own)
        st[('cnt', l)] = z3.If(cnt == 0, cnt, cnt - 1)
        st[('died', tid)] = z3.If(z3.Or(cnt == 0, own != tid), BV(2), st[('died', tid)])
      return [(None, st, pc + 1)]
    if op == 'wait':
      c, l = ins['cond'], ins['lock']
      st[('sv', c, tid)] = st[('cnt', l)]
      st[('own', l)] = BV(255); st[('cnt', l)] = BV(0)
      st[('w', c, tid)] = st['ticket']; st['ticket'] = st['ticket'] + 1
      return [(None, st, pc + 1)]
    if op == 'wake':
      c, l = ins['cond'], ins['lock']
      notified = st[('w', c, tid)] == NOTIFIED
      st[('own', l)] = BV(tid); st[('cnt', l)] = st[('sv', c, tid)]
      st[('w', c, tid)] = BV(0)
      setv(ins['dst'], self.b2v(notified))
      return [(None, st, pc + 1)]
    if op == 'notify':
      c = ins['cond']
      ws = [st[('w', c, i)] for i in range(self.n)]
      for i in range(self.n):
        waiting = z3.And(ws[i] != 0, ws[i] != NOTIFIED)
        if ins['all']:
          st[('w', c, i)] = z3.If(waiting, BV(NOTIFIED), ws[i])
        else:
          first = z3.And(waiting, *[z3.Or(ws[j] == 0, ws[j] == NOTIFIED, z3.ULE(ws[i], ws[j])) for j in range(self.n) if j != i])
          st[('w', c, i)] = z3.If(first, BV(NOTIFIED), ws[i])
      return [(None, st, pc + 1)]
    if op == 'qput':
      q = ins['q']; d = self.s.queues[q]
      cap = self.param_or_const(d['cap'])
      qlen = st[('qlen', q)]
      full = z3.And(cap != 0, z3.UGE(qlen, cap))
      val = self.ev(ins['e'], st, tid)
      st2 = dict(st)
      for j in range(d['max']):
        st2[('q', q, j)] = z3.If(qlen == j, val, st[('q', q, j)])
      st2[('qlen', q)] = qlen + 1
      return [(z3.Not(full), st2, L[ins['ok']]), (full, st, L[ins['full']])]
    if op == 'qget':
      q = ins['q']; d = self.s.queues[q]
      empty = st[('qlen', q)] == 0
      st2 = dict(st)
      st2[('l', tid, ins['dst'][1])] = st[('q', q, 0)]
      for j in range(d['max']):
        st2[('q', q, j)] = st[('q', q, j + 1)] if j + 1 < d['max'] else BV(0)
      st2[('qlen', q)] = st[('qlen', q)] - 1
      return [(z3.Not(empty), st2, L[ins['ok']]), (empty, st, L[ins['empty']])]
    if op == 'next':
      it = ins['it']; d = self.s.iters[it]
      pos = st[('it', it)]
      n = self.param_or_const(d['n'])
      fail = self.param_or_const(d['fail']) if d.get('fail') is not None else BV(255)
      fails = pos == fail
      done = z3.And(z3.Not(fails), z3.UGE(pos, n))
      ok = z3.And(z3.Not(fails), z3.ULT(pos, n))
      exk, exv = ins['exk'], ins['exv']
      s_ok = dict(st); s_ok[('l', tid, ins['dst'][1])] = BV(d['base']) + pos; s_ok[('it', it)] = pos + 1
      s_stop = dict(st); s_stop[('l', tid, exk[1])] = BV(F.K_STOP); s_stop[('l', tid, exv[1])] = BV(d['ret'])
      # a failing iterator raises once and is exhausted afterwards unless it is `resumable`
      s_err = dict(st); s_err[('l', tid, exk[1])] = BV(F.K_USER); s_err[('l', tid, exv[1])] = BV(d.get('errval', 7))
      s_err[('it', it)] = (pos + 1) if d.get('resumable') else pos
      if not d.get('resumable'):
        s_err[('it', it)] = BV(254)        # a generator that raised is finished: later next() -> StopIteration
      return [(ok, s_ok, L[ins['ok']]), (done, s_stop, L[ins['stop']]), (fails, s_err, L[ins['err']])]
    if op == 'log':
      lg = ins['log']; cap = self.s.logs[lg]
      ln = st[('loglen', lg)]
      vals = {'tag': self.ev(ins['tag'], st, tid), 'kind': self.ev(ins['kind'], st, tid), 'val': self.ev(ins['val'], st, tid)}
      for j in range(cap):
        for comp in ('tag', 'kind', 'val'):
          st[('log', lg, j, comp)] = z3.If(ln == j, vals[comp], st[('log', lg, j, comp)])
      st[('loglen', lg)] = ln + 1
      return [(None, st, pc + 1)]
    if op == 'lappend':
      base = ins['var']
      key = (lambda sfx: ('l', tid, base[1] + sfx)) if base[0] == 'l' else (lambda sfx: ('g', base[1], base[2] + sfx))
      ln = st[key('')]
      val = self.ev(ins['e'], st, tid)
      for i in range(F.LIST_CAP):
        st[key(f'[{i}]')] = z3.If(ln == i, val, st[key(f'[{i}]')])
      st[key('')] = ln + 1
      return [(None, st, pc + 1)]
    if op == 'lpopleft':
      base = ins['var']
      key = (lambda sfx: ('l', tid, base[1] + sfx)) if base[0] == 'l' else (lambda sfx: ('g', base[1], base[2] + sfx))
      first = st[key('[0]')]
      for i in range(F.LIST_CAP):
        st[key(f'[{i}]')] = st[key(f'[{i + 1}]')] if i + 1 < F.LIST_CAP else BV(0)
      st[key('')] = st[key('')] - 1
      st[('l', tid, ins['dst'][1])] = first
      return [(None, st, pc + 1)]
    if op == 'retadd':
      o, f = ins['obj'], ins['field']
      val = self.ev(ins['val'], st, tid)
      st[('g', o, f)] = st[('g', o, f)] | val
      st[('g', o, f + '.cnt')] = st[('g', o, f + '.cnt')] + z3.If(val != 0, BV(1), BV(0))      # StopIteration() without a value has no args
      return [(None, st, pc + 1)]
    if op in ('nop', 'start'):
      return [(None, st, pc + 1)]
    if op == 'tstart':
      st[('started', self.s.thread_ids[ins['thread']])] = BV(1)
      return [(None, st, pc + 1)]
    if op == 'join':
      return [(None, st, pc + 1)]
    if op == 'died':
      ex = ins['exc']
      st[('died', tid)] = BV(1)
      return [(None, st, pc + 1)]
    raise Unsupported(f'instruction {ins}')

  def guard(self, tid, pc, st, choice):
    ins = self.s.threads[tid].ins[pc]
    op = ins['op']
    started = st[('started', tid)] == 1
    if op == 'acq':
      l = ins['lock']
      g = st[('own', l)] == 255
      if self.s.locks[l] == 'rlock':
        g = z3.Or(g, st[('own', l)] == tid)
      return z3.And(started, g)
    if op == 'wake':
      c, l = ins['cond'], ins['lock']
      free = st[('own', l)] == 255
      notified = st[('w', c, tid)] == NOTIFIED
      to = self.tr(self.param_or_const(self.s.timeout)) if ins['timed'] else z3.BoolVal(False)
      return z3.And(started, free, z3.Or(notified, z3.And(to, choice)))
    if op == 'join':
      ts = [self.s.thread_ids[t] for t in ins['threads']]
      return z3.And(started, *[z3.Or(self.halted(t, st), st[('started', t)] == 0) if False else self.halted(t, st) for t in ts])
    if op == 'halt':
      return z3.BoolVal(False)
    return started

  def frag(self, tid, pc, st, choice, first=True, depth=0):
    """Symbolic execution of the macro-step that starts at PP `pc`: the acyclic region up to the next PPs is processed
    in topological order with state merging at join points (no path enumeration). Returns (state, next pc term)."""
    prog = self.s.threads[tid]
    st = dict(st)
    zero = BV(0)
    for name in prog.locals:
      if ('l', tid, name) not in st:
        st[('l', tid, name)] = zero
    if prog.ins[pc]['op'] == 'halt':
      return st, BV(pc, PCW)
    region = self.region(tid, pc)
    order = region['order']
    cond = {pc: None}            # None = True
    state = {pc: st}
    exits = []                   # (cond, state, target pc)
    for node in order:
      if node not in state:
        continue
      c_in, s_in = cond[node], state.pop(node)
      for c, s2, npc in self.step1(tid, node, s_in, choice):
        ec = c_in if c is None else (c if c_in is None else z3.And(c_in, c))
        if npc in self._ppset[tid] or prog.ins[npc]['op'] == 'halt' or npc not in region['set']:
          exits.append((ec, s2, npc))
        elif npc not in state:
          state[npc], cond[npc] = s2, ec
        else:
          old, oc = state[npc], cond[npc]
          merged = dict(old)
          for k, v in s2.items():
            ov = old.get(k)
            if ov is not v:
              merged[k] = z3.If(ec, v, ov) if (ec is not None and ov is not None) else v
          state[npc] = merged
          cond[npc] = None if (ec is None or oc is None) else z3.Or(oc, ec)
    if not exits:
      raise Unsupported(f'thread {tid}: macro-step at {pc} has no exit')
    s_out, pc_out = dict(exits[-1][1]), BV(exits[-1][2], PCW)
    for ec, sa, pa in reversed(exits[:-1]):
      if ec is None:
        s_out, pc_out = dict(sa), BV(pa, PCW)
        continue
      for k, v in sa.items():
        ov = s_out.get(k)
        if ov is not v:
          s_out[k] = z3.If(ec, v, ov) if ov is not None else v
      pc_out = z3.If(ec, BV(pa, PCW), pc_out)
    return s_out, pc_out

  def region(self, tid, pc):
    """Nodes of the macro-step starting at PP pc (excluding later PPs) in topological order."""
    cache = self.__dict__.setdefault('_region_cache', {})
    if (tid, pc) in cache:
      return cache[(tid, pc)]
    prog = self.s.threads[tid]
    n = len(prog.ins)
    nodes, stack = set(), [pc]
    while stack:
      q = stack.pop()
      if q in nodes:
        continue
      nodes.add(q)
      if prog.ins[q]['op'] == 'halt':
        continue
      for nx in self.succs_all(prog, q):
        if nx < n and nx not in self._ppset[tid] and nx not in nodes:
          stack.append(nx)
    indeg = {q: 0 for q in nodes}
    for q in nodes:
      if prog.ins[q]['op'] == 'halt':
        continue
      for nx in set(self.succs_all(prog, q)):
        if nx in nodes and nx != pc and nx not in self._ppset[tid]:
          indeg[nx] += 1
    order, ready = [], [pc]
    indeg[pc] = 0
    while ready:
      q = ready.pop()
      order.append(q)
      if prog.ins[q]['op'] == 'halt':
        continue
      for nx in set(self.succs_all(prog, q)):
        if nx in nodes and nx != pc and nx not in self._ppset[tid]:
          indeg[nx] -= 1
          if indeg[nx] == 0:
            ready.append(nx)
    if len(order) != len(nodes):
      raise Unsupported(f'thread {tid}: macro-step at {pc} contains a cycle without a pre-emption point')
    cache[(tid, pc)] = {'set': nodes, 'order': order}
    return cache[(tid, pc)]

  def succs_all(self, prog, pc):
    """Successors as produced by step1 (all edges, also statically infeasible ones)."""
    ins = prog.ins[pc]
    op = ins['op']
    L = prog.labels
    if op == 'br':
      return [L[ins['t']], L[ins['f']]]
    if op == 'jmp':
      return [L[ins['t']]]
    if op == 'halt':
      return []
    if op == 'qget':
      return [L[ins['ok']], L[ins['empty']]]
    if op == 'qput':
      return [L[ins['ok']], L[ins['full']]]
    if op == 'next':
      return [L[ins['ok']], L[ins['stop']], L[ins['err']]]
    return [pc + 1]

  def frag_access(self, tid, pc):
    """Static over-approximation of the resources touched by the macro-step starting at pc."""
    prog = self.s.threads[tid]
    seen, R, Wr = set(), set(), set()
    stack = [(pc, True)]
    while stack:
      q, first = stack.pop()
      if (q in seen) or (not first and q in self._ppset[tid]):
        continue
      seen.add(q)
      ins = prog.ins[q]
      r, w = self.resources(ins)
      R |= r; Wr |= w
      if ins['op'] in ('log',):
        Wr.add(('LOG', ins['log']))
      for nx in self.succs(prog, q):
        if nx < len(prog.ins):
          stack.append((nx, False))
    # thread-local notions
    Wr = {(x if x != ('T', 'self') else ('T', tid)) for x in Wr}
    return R, Wr


# ------------------------------------------------------------------------------------------------
class Result:

  def __init__(self):
    self.verdict = 'unknown'      # exhausted | violation | deadlock | bound | unknown
    self.depth = 0
    self.trace = None
    self.stats = {'queries': 0, 'time': 0.0, 'sat': 0, 'unsat': 0, 'unknown': 0}
    self.detail = ''
    self.states = 0
    self.transitions = 0


def assert_bv_only(e, seen=None):
  """The QF_BV solver must never see Int/Real-sorted terms (it may silently mis-handle them)."""
  seen = set() if seen is None else seen
  stack = [e]
  while stack:
    x = stack.pop()
    if x.get_id() in seen:
      continue
    seen.add(x.get_id())
    k = x.sort().kind()
    if k not in (z3.Z3_BOOL_SORT, z3.Z3_BV_SORT):
      raise Unsupported(f'non bit-vector term in a BMC query: {x.sort()} {str(x)[:80]}')
    stack.extend(x.children())


def bmc(sysm: System, bad_final=None, bad_any=None, depths=(40, 80, 120, 160), timeout_s=1200, want_trace_of_ok=False, bad_stuck=None, progress=None):
  """bad_final(enc, st) / bad_any(enc, st): z3 Bool over a state. Returns Result."""
  enc = Encoder(sysm)
  enc._ppset = [set(p) for p in enc.pp]
  n = enc.n
  res = Result()
  res.pp_counts = [len(p) for p in enc.pp]
  res.ins_counts = [len(p.ins) for p in sysm.threads]
  res.racy = sorted(map(str, enc.racy))
  sol = z3.SolverFor('QF_BV')
  sol.set('timeout', int(timeout_s * 1000))
  t0 = time.time()
  states = [enc.mk_state(0)]
  sol.add(*enc.init(states[0]))
  scheds, choices = [], []
  ACC = [{pc: enc.frag_access(i, pc) for pc in enc.pp[i]} for i in range(n)]
  def indep(a, b):
    return not (a[1] & b[1] or a[1] & b[0] or a[0] & b[1])
  def enabled(i, st, ch):
    return z3.Or(*[z3.And(st[('pc', i)] == BV(pc, PCW), enc.guard(i, pc, st, ch)) for pc in enc.pp[i]])
  def all_halted(st):
    return z3.And(*[z3.Or(enc.halted(i, st), st[('started', i)] == 0) for i in range(n)])
  def check(*extra):
    tq = time.time()
    sol.push()
    sol.add(*extra)
    # the budget is for the whole scenario: a query may only use what is left of it
    sol.set('timeout', max(1000, int((timeout_s - (tq - t0)) * 1000)))
    r = sol.check()
    m = sol.model() if r == z3.sat else None
    sol.pop()
    res.stats['queries'] += 1
    res.stats[str(r)] = res.stats.get(str(r), 0) + 1
    res.stats['time'] += time.time() - tq
    return r, m
  any_bad = []
  depth_done = 0
  for K in depths:
    for t in range(depth_done, K):
      st = states[-1]
      st2 = enc.mk_state(t + 1)
      sc = z3.BitVec(f'sched@{t}', W)
      ch = z3.Bool(f'choice@{t}')
      en = [enabled(i, st, z3.BoolVal(True)) for i in range(n)]     # "can move", counting a possible timeout
      nobody = z3.And(*[z3.Not(e) for e in en])
      if bad_any is not None:
        any_bad.append(bad_any(enc, st))
      nxt = dict(st)
      step_ok = []
      for i in range(n):
        for pc in enc.pp[i]:
          if sysm.threads[i].ins[pc]['op'] == 'halt':
            continue
          cond = z3.And(sc == i, st[('pc', i)] == BV(pc, PCW))
          step_ok.append(z3.And(cond, enc.guard(i, pc, st, ch)))
          s2, npc = enc.frag(i, pc, st, ch)
          for k in st:
            if k == ('pc', i):
              nxt[k] = z3.If(cond, npc, nxt[k])
            elif s2[k] is not st[k]:
              nxt[k] = z3.If(cond, s2[k], nxt[k])
      # stutter (sched == n) exactly when nobody can move
      sol.add(z3.Or(z3.And(sc == n, nobody), *step_ok))
      sol.add(z3.ULE(sc, n))
      for k in st:
        sol.add(st2[k] == z3.If(sc == n, st[k], nxt[k]))
      # peephole POR on (step t-1, step t)
      if scheds:
        sp = states[-2]
        for a in range(n):
          for b in range(a):
            bad = []
            for pa in enc.pp[a]:
              row = [pb for pb in enc.pp[b] if indep(ACC[a][pa], ACC[b][pb])]
              if row:
                bad.append(z3.And(sp[('pc', a)] == BV(pa, PCW), z3.Or(*[sp[('pc', b)] == BV(pb, PCW) for pb in row])))
            if bad:
              sol.add(z3.Not(z3.And(scheds[-1] == a, sc == b, z3.Or(*bad))))
      states.append(st2); scheds.append(sc); choices.append(ch)
    depth_done = K
    st = states[-1]
    enK = [enabled(i, st, z3.BoolVal(True)) for i in range(n)]
    nobodyK = z3.And(*[z3.Not(e) for e in enK])
    ah = all_halted(st)
    if bad_stuck is None:
      bads = [z3.And(nobodyK, z3.Not(ah))]
      names = ['deadlock']
    else:
      # termination is not part of the claim: a state in which nobody can move is terminal and only has to satisfy bad_stuck's negation
      bs = bad_stuck(enc, st)
      assert_bv_only(bs)
      bads = [z3.And(nobodyK, z3.Not(ah), bs)]
      names = ['bad_stuck']
    if bad_final is not None:
      bf = bad_final(enc, st)
      assert_bv_only(bf)
      bads.append(z3.And(ah, bf)); names.append('bad_final')
    if any_bad:
      bads.append(z3.Or(*any_bad)); names.append('bad_any')
    running = z3.Not(nobodyK)
    r, m = check(z3.Or(*bads, running))
    if r == z3.unsat:
      res.verdict = 'exhausted'; res.depth = K
      if want_trace_of_ok:
        r3, m3 = check(ah)
        if r3 == z3.sat:
          res.trace = extract(enc, sysm, m3, states, scheds, choices)
      break
    def holds(b):
      v = z3.simplify(m.eval(b, model_completion=True))
      if z3.is_true(v):
        return True
      if z3.is_false(v):
        return False
      sv = z3.Solver(); sv.add(v)
      return sv.check() == z3.sat
    if r == z3.sat and __import__('os').environ.get('VF_DEBUG_BMC'):
      print('DEBUG bads', [(nm, str(z3.simplify(m.eval(b, model_completion=True)))[:200]) for nm, b in zip(names, bads)], 'running', z3.simplify(m.eval(running, model_completion=True)), 'ah', z3.simplify(m.eval(ah, model_completion=True)))
    if r == z3.sat and not any(holds(b) for b in bads):
      res.verdict = 'bound'; res.depth = K
      if progress: progress(K, time.time() - t0)
      res.detail = f'some thread can still run at depth {K}'
      res.bound_trace = extract(enc, sysm, m, states, scheds, choices)      # diagnostics only
      res.bound_trace['enabled_at_bound'] = [bool(z3.is_true(m.eval(e_, model_completion=True))) for e_ in enK]
      res.bound_trace['sched'] = [m.eval(x, model_completion=True).as_long() for x in scheds]
      if time.time() - t0 > timeout_s:
        res.detail = f'time budget exhausted after depth {K}'
        res.budget_exhausted = True
        break
      continue
    if r == z3.sat:
      which = [nm for nm, b in zip(names, bads) if holds(b)]
      res.verdict = 'deadlock' if which == ['deadlock'] else 'violation'
      res.detail = ','.join(which)
      res.depth = K
      res.trace = extract(enc, sysm, m, states, scheds, choices)
      break
    if r == z3.unknown:
      if res.verdict == 'bound' and res.depth:
        # time budget used up while deciding level K: every interleaving of up to res.depth macro-steps has been decided
        res.detail = f'time budget exhausted at depth {K}; last decided depth {res.depth}'
        res.budget_exhausted = True
      else:
        res.verdict = 'unknown'; res.detail = f'solver unknown at depth {K}'; res.depth = K
      break
    r2, m2 = check(z3.Not(nobodyK))
    res.depth = K
    if r2 == z3.unsat:
      res.verdict = 'exhausted'
      if want_trace_of_ok:
        r3, m3 = check(ah)
        if r3 == z3.sat:
          res.trace = extract(enc, sysm, m3, states, scheds, choices)
      break
    if r2 == z3.unknown:
      res.verdict = 'unknown'; res.detail = f'unwinding query unknown at depth {K}'
      break
    res.verdict = 'bound'
    res.detail = f'some thread can still run at depth {K}'
    if time.time() - t0 > timeout_s:
      break
  res.wall = time.time() - t0
  res.states = sum(res.pp_counts) * max(res.depth, 1)
  res.transitions = (sum(len([1 for pc in enc.pp[i] if sysm.threads[i].ins[pc]['op'] != 'halt']) for i in range(n))) * max(res.depth, 1)
  res.enc = enc
  return res


def extract(enc, sysm, m, states, scheds, choices):
  def val(x):
    v = m.eval(x, model_completion=True)
    return v.as_long() if z3.is_bv_value(v) else (1 if z3.is_true(v) else 0)
  tr = {'params': {k: val(v) for k, v in enc.P.items()}, 'steps': [], 'final': {}}
  n = enc.n
  for t, sc in enumerate(scheds):
    i = val(sc)
    if i >= n:
      continue
    st = states[t]
    pc = val(st[('pc', i)])
    ins = sysm.threads[i].ins[pc]
    tr['steps'].append({'step': t, 'thread': i, 'name': sysm.threads[i].name, 'pc': pc, 'op': ins['op'], 'line': ins['line'],
                        'timeout_fired': val(choices[t]) if ins['op'] == 'wake' and val(st[('w', ins['cond'], i)]) != NOTIFIED else 0})
    if __import__('os').environ.get('VF_DEBUG_BMC'):
      tr['steps'][-1]['locks_before'] = {l: (val(st[('own', l)]), val(st[('cnt', l)])) for l in sysm.locks}
  st = states[-1]
  for i in range(n):
    pc = val(st[('pc', i)])
    tr['final'][sysm.threads[i].name] = {'pc': pc, 'op': sysm.threads[i].ins[pc]['op'], 'line': sysm.threads[i].ins[pc]['line'],
                                         'halted': pc in enc.halts[i], 'died': val(st[('died', i)])}
  tr['logs'] = {}
  for lg, cap in sysm.logs.items():
    ln = val(st[('loglen', lg)])
    tr['logs'][lg] = [(val(st[('log', lg, j, 'tag')]), val(st[('log', lg, j, 'kind')]), val(st[('log', lg, j, 'val')])) for j in range(min(ln, cap))]
  tr['globals'] = {f'{k[1]}.{k[2]}': val(v) for k, v in st.items() if isinstance(k, tuple) and k[0] == 'g'}
  return tr
