"""Engine B, front end: Python source (ast) of the real threaded code -> a small goto IR per thread.

Every thread of a *scenario* is a short driver function written in Python that calls the real methods
(`q.enqueue_from_iterator(SRC)`, `q.get()`, ...). Method bodies are read from /repo's current source with
`ast`, inlined (methods, properties, helper functions, `with`, `try/except/else/finally`), and lowered to
three-address instructions over a handful of value types:

  int / bool        8-bit vectors (bools 0/1)
  exc               pair (kind, val); kind 0 == None.  StopIteration payload = packed return-value set
  list              bounded int array + length (result batches, deque caches)
  retset            `IteratorQueue._returned`: modelled as (bitmask of return values, count)

Anything outside the subset raises `Unsupported(file:line)` -> the check is inconclusive, never silently wrong.
The IR keeps the source line of every instruction; `racy` reads/writes of shared fields are separate
instructions so that the back end can put a pre-emption point in front of each of them.
"""
from __future__ import annotations

import ast
import inspect
import textwrap

# exception kinds
K_NONE, K_EMPTY, K_FULL, K_STOP, K_TIMEOUT, K_USER, K_RUNTIME, K_ASSERT, K_TYPE, K_INDEX = range(10)
KIND_NAMES = {K_NONE: 'None', K_EMPTY: 'Empty', K_FULL: 'Full', K_STOP: 'StopIteration', K_TIMEOUT: 'TimeoutError',
              K_USER: 'UserError', K_RUNTIME: 'RuntimeError', K_ASSERT: 'AssertionError', K_TYPE: 'TypeError', K_INDEX: 'IndexError'}
EXC_NAMES = {'Empty': (K_EMPTY,), 'QueueEmpty': (K_EMPTY,), 'Full': (K_FULL,), 'QueueFull': (K_FULL,), 'StopIteration': (K_STOP,),
             'StopAsyncIteration': (K_STOP,), 'TimeoutError': (K_TIMEOUT,), 'ValueError': (K_USER,), 'UserError': (K_USER,),
             'RuntimeError': (K_RUNTIME,), 'AssertionError': (K_ASSERT,), 'TypeError': (K_TYPE,), 'IndexError': (K_INDEX,),
             'KeyboardInterrupt': (),       # never raised in the model
             'Exception': (K_EMPTY, K_FULL, K_STOP, K_TIMEOUT, K_USER, K_RUNTIME, K_ASSERT, K_TYPE, K_INDEX)}
LIST_CAP = 4


class Unsupported(Exception):
  pass


class Val:
  """Compile-time description of a value: type + IR expressions of its components."""

  def __init__(self, ty, **c):
    self.ty = ty
    self.c = c

  def __repr__(self):
    return f'Val({self.ty},{self.c})'


def C(v):
  return ('const', int(v))


TRUE, FALSE = C(1), C(0)
OPT_NONE, OPT_ABSENT = 255, 254       # encoding of Optional[int] values ('optint') and of a missing dict entry


class ObjSpec:
  """A modelled object instance: class name, fields with types and initial values, primitive members."""

  def __init__(self, name, cls, fields, prims=None, consts=None):
    self.name, self.cls = name, cls
    self.fields = fields          # field -> (type, init)   type in int|bool|exc|retset|ref
    self.prims = prims or {}      # attribute -> ('lock'|'rlock'|'cond'|'queue'|'pool'|'thread', id)
    self.consts = consts or {}    # attribute -> python constant (e.g. timeout None / configured, name strings)


class Program:

  def __init__(self, name):
    self.name = name
    self.ins = []            # list of dict(op=..., line=..., ...)
    self.labels = {}
    self.locals = {}         # name -> (type, init)
    self.nlabel = 0

  def label(self, hint='L'):
    self.nlabel += 1
    return f'{hint}{self.nlabel}'

  def place(self, lab):
    self.labels[lab] = len(self.ins)

  def emit(self, op, line=0, **kw):
    kw.update(op=op, line=line)
    self.ins.append(kw)
    return kw


class Compiler:
  """Compiles one thread driver (python source string) against a set of modelled objects."""

  def __init__(self, sources, objects, iters, logs, globals_=None):
    self.sources = sources        # class name -> {method name: ast.FunctionDef}; '' -> module level functions
    self.objects = objects        # var name -> ObjSpec
    self.iters = iters            # iterator name -> id
    self.logs = logs              # log name -> capacity
    self.globals = globals_ or {}
    self.encoded_lines = set()    # (file, line) that produced IR
    self.dropped_lines = set()    # logging etc.
    self.inline_depth = 0
    self.uid = 0

  # ---------------------------------------------------------------- helpers ----
  def fresh(self, hint):
    self.uid += 1
    return f'{hint}#{self.uid}'

  def err(self, node, msg):
    raise Unsupported(f'{self.file}:{getattr(node, "lineno", "?")}: {msg}')

  def local(self, name, ty, init=0):
    full = self.scope + name
    if ty == 'optint':
      ty = 'int'
    if full not in self.P.locals:
      self.P.locals[full] = (ty, init)
      if ty == 'exc':
        self.P.locals[full + '.val'] = ('int', 0)
      if ty == 'list':
        for i in range(LIST_CAP):
          self.P.locals[full + f'[{i}]'] = ('int', 0)
        self.P.locals[full + '.tk'] = ('int', 0)      # optional trailing exception element (kind, val)
        self.P.locals[full + '.tv'] = ('int', 0)
    return full

  def lvar(self, name):
    return ('l', name)

  # ---------------------------------------------------------------- entry ----
  def compile_thread(self, name, src):
    self.P = Program(name)
    self.file = f'<scenario:{name}>'
    self.scope = ''
    self.env = {}                 # python name -> Val (locals incl. object references)
    for oname, spec in self.objects.items():
      self.env[oname] = Val('obj', obj=oname)
    for iname in self.iters:
      self.env[iname] = Val('iter', it=iname)
    for lname in self.logs:
      self.env[lname] = Val('log', log=lname)
    self.handlers = []            # stack of exception handler labels
    self.finals = []              # stack of pending finally bodies (for return/break/continue unwinding)
    self.loops = []
    self.ret = None
    tree = ast.parse(textwrap.dedent(src))
    body = tree.body[0].body if isinstance(tree.body[0], ast.FunctionDef) else tree.body
    died = self.P.label('died')
    self.handlers.append(('label', died))
    self.P.emit('start')                  # thread entry: the only instruction at which a thread can sit before it first runs
    self.stmts(body)
    self.P.emit('halt')
    self.P.place(died)
    self.P.emit('died', exc=self.cur_exc())
    self.P.emit('halt')
    self.handlers.pop()
    return dce(self.P)

  # the "current exception" register of the thread
  def cur_exc(self):
    self.local_abs('$exc', 'exc')
    return Val('exc', kind=('l', '$exc'), val=('l', '$exc.val'))

  def local_abs(self, full, ty):
    if full not in self.P.locals:
      self.P.locals[full] = (ty, 0)
      if ty == 'exc':
        self.P.locals[full + '.val'] = ('int', 0)

  # ---------------------------------------------------------------- statements ----
  def stmts(self, body):
    for s in body:
      self.stmt(s)

  def note_line(self, node):
    if hasattr(node, 'lineno'):
      self.encoded_lines.add((self.file, node.lineno))

  def stmt(self, s):
    self.note_line(s)
    m = getattr(self, 's_' + type(s).__name__, None)
    if m is None:
      self.err(s, f'statement {type(s).__name__} not supported')
    m(s)

  def s_Pass(self, s):
    pass

  def s_Expr(self, s):
    if isinstance(s.value, ast.Constant):
      return                                   # docstring
    if self.is_logging(s.value):
      self.dropped_lines.add((self.file, s.lineno))
      return
    self.expr(s.value)

  def is_logging(self, e):
    if isinstance(e, ast.Call):
      f = e.func
      if isinstance(f, ast.Attribute) and isinstance(f.value, ast.Name) and f.value.id == 'logging':
        return True
      if isinstance(f, ast.Attribute) and f.attr == 'add_note':
        return True
    return False

  def s_Assign(self, s):
    if len(s.targets) != 1:
      # a = b = c  (maybe_stop: self._enqueue_stop = self._enqueue_start = self._max_enqueuer)
      v = self.expr(s.value)
      for t in s.targets:
        self.assign(t, v, s)
      return
    t = s.targets[0]
    if isinstance(t, ast.Tuple):
      if isinstance(s.value, ast.Tuple) and len(s.value.elts) == len(t.elts):
        vals = [self.materialize(self.expr(e), s) for e in s.value.elts]
        for tt, v in zip(t.elts, vals):
          self.assign(tt, v, s)
        return
      self.err(s, 'tuple assignment from non-tuple')
    self.assign(t, self.expr(s.value), s)

  def s_AnnAssign(self, s):
    if s.value is not None:
      self.assign(s.target, self.expr(s.value), s)

  def s_AugAssign(self, s):
    cur = self.expr(s.target)
    rhs = self.expr(s.value)
    if cur.ty == 'list' and isinstance(s.op, ast.Add):
      self.err(s, 'list += not supported')
    if not (cur.ty in ('int', 'bool') and rhs.ty in ('int', 'bool')):
      self.err(s, f'augmented assignment on {cur.ty}')
    op = {ast.Add: '+', ast.Sub: '-'}.get(type(s.op))
    if op is None:
      self.err(s, 'augmented operator')
    self.assign(s.target, Val('int', e=('op', op, cur.c['e'], rhs.c['e'])), s)

  def materialize(self, v, node):
    """Copies a value into fresh temporaries (so that later assignments do not change it)."""
    if v.ty in ('int', 'bool'):
      t = self.local(self.fresh('t'), v.ty)
      self.P.emit('set', node.lineno, dst=('l', t), e=v.c['e'])
      return Val(v.ty, e=('l', t))
    if v.ty == 'exc':
      t = self.local(self.fresh('x'), 'exc')
      self.P.emit('set', node.lineno, dst=('l', t), e=v.c['kind'])
      self.P.emit('set', node.lineno, dst=('l', t + '.val'), e=v.c['val'])
      return Val('exc', kind=('l', t), val=('l', t + '.val'))
    return v

  def assign(self, target, v, node):
    line = node.lineno
    if isinstance(target, ast.Name):
      name = target.id
      if v.ty in ('obj', 'iter', 'log', 'none', 'prim', 'lambda', 'str', 'tuple'):
        self.env[self.scope + name] = v
        return
      cur = self.env.get(self.scope + name)
      if v.ty == 'list':
        full = self.local(name, 'list')
        self.P.emit('set', line, dst=('l', full), e=v.c['len'])
        for i in range(LIST_CAP):
          self.P.emit('set', line, dst=('l', full + f'[{i}]'), e=v.c['items'][i])
        self.P.emit('set', line, dst=('l', full + '.tk'), e=v.c.get('tk', C(0)))
        self.P.emit('set', line, dst=('l', full + '.tv'), e=v.c.get('tv', C(0)))
        self.env[self.scope + name] = Val('list', len=('l', full), items=[('l', full + f'[{i}]') for i in range(LIST_CAP)], var=('l', full),
                                          tk=('l', full + '.tk'), tv=('l', full + '.tv'))
        if v.c.get('elem'):
          self.env[self.scope + name].c['elem'] = v.c['elem']
        return
      if v.ty == 'exc':
        full = self.local(name, 'exc')
        self.P.emit('set', line, dst=('l', full), e=v.c['kind'])
        self.P.emit('set', line, dst=('l', full + '.val'), e=v.c['val'])
        self.env[self.scope + name] = Val('exc', kind=('l', full), val=('l', full + '.val'))
        return
      full = self.local(name, v.ty)
      self.P.emit('set', line, dst=('l', full), e=v.c['e'])
      self.env[self.scope + name] = Val(v.ty, e=('l', full))
      return
    if isinstance(target, ast.Attribute):
      base = self.expr(target.value)
      if base.ty != 'obj':
        self.err(node, 'attribute assignment on non-object')
      spec = self.objects[base.c['obj']]
      f = target.attr
      if f not in spec.fields:
        if f in spec.consts or f in spec.prims:
          self.err(node, f'assignment to constant/primitive attribute {f}')
        self.err(node, f'unknown field {spec.cls}.{f}')
      fty = spec.fields[f][0]
      if fty == 'exc':
        if v.ty == 'none':
          v = Val('exc', kind=C(K_NONE), val=C(0))
        if v.ty != 'exc':
          self.err(node, f'assigning {v.ty} to exception field {f}')
        self.P.emit('set', line, dst=('g', spec.name, f), e=v.c['kind'])
        self.P.emit('set', line, dst=('g', spec.name, f + '.val'), e=v.c['val'])
      elif fty == 'ref':
        if v.ty == 'none':
          self.P.emit('set', line, dst=('g', spec.name, f), e=C(0))
        elif v.ty == 'obj':
          self.P.emit('set', line, dst=('g', spec.name, f), e=C(self.obj_index(v.c['obj'])))
        elif v.ty == 'ref':
          self.P.emit('set', line, dst=('g', spec.name, f), e=v.c['e'])
        else:
          self.err(node, f'assigning {v.ty} to reference field {f}')
      else:
        if v.ty not in ('int', 'bool'):
          self.err(node, f'assigning {v.ty} to field {f}')
        self.P.emit('set', line, dst=('g', spec.name, f), e=v.c['e'])
      return
    if isinstance(target, ast.Subscript):
      base = self.expr(target.value)
      if base.ty == 'prim' and base.c['kind'] == 'dict1':
        spec = self.objects[base.c['owner']]
        key = self.expr(target.slice)
        if key.ty != 'str' or key.c['s'] != spec.prims[base.c['attr']][2]:
          self.err(node, f'dict store with a key other than the modelled one: {key}')
        ve = C(OPT_NONE) if v.ty == 'none' else v.c['e'] if v.ty in ('int', 'bool', 'optint') else self.err(node, f'dict store of {v.ty}')
        self.P.emit('set', line, dst=('g', spec.name, base.c['id']), e=ve)
        return
    self.err(node, f'assignment target {type(target).__name__}')

  def obj_index(self, oname):
    return 1 + sorted(self.objects).index(oname)

  def s_If(self, s):
    c = self.truth(self.expr(s.test), s)
    lt, lf, le = self.P.label('then'), self.P.label('else'), self.P.label('fi')
    self.P.emit('br', s.lineno, e=c, t=lt, f=lf)
    self.P.place(lt)
    self.stmts(s.body)
    self.P.emit('jmp', s.lineno, t=le)
    self.P.place(lf)
    self.stmts(s.orelse)
    self.P.place(le)

  def s_While(self, s):
    if s.orelse:
      self.err(s, 'while/else')
    lh, lb, le = self.P.label('while'), self.P.label('body'), self.P.label('wend')
    self.P.place(lh)
    c = self.truth(self.expr(s.test), s)
    self.P.emit('br', s.lineno, e=c, t=lb, f=le)
    self.P.place(lb)
    self.loops.append((lh, le, len(self.finals)))
    self.stmts(s.body)
    self.loops.pop()
    self.P.emit('jmp', s.lineno, t=lh)
    self.P.place(le)

  def s_For(self, s):
    it = self.expr(s.iter)
    if it.ty == 'list' and isinstance(s.target, ast.Name):
      le = self.P.label('forend')
      for i in range(LIST_CAP):
        lb = self.P.label('forbody')
        self.P.emit('br', s.lineno, e=('op', '<', C(i), it.c['len']), t=lb, f=le)
        self.P.place(lb)
        if it.c.get('elem'):
          cands = sorted(o.name for o in self.objects.values() if o.cls == it.c['elem'][1])
          ln = self.P.label('fornext')
          for cn in cands:
            lo, lx = self.P.label('forobj'), self.P.label('forobjskip')
            if len(cands) > 1:
              self.P.emit('br', s.lineno, e=('op', '==', it.c['items'][i], C(self.obj_id(cn))), t=lo, f=lx)
              self.P.place(lo)
            self.assign(s.target, Val('obj', obj=cn), s)
            self.loops.append((None, le, len(self.finals)))
            self.stmts(s.body)
            self.loops.pop()
            if len(cands) > 1:
              self.P.emit('jmp', s.lineno, t=ln)
              self.P.place(lx)
          self.P.place(ln)
          continue
        self.assign(s.target, Val('int', e=it.c['items'][i]), s)
        self.loops.append((None, le, len(self.finals)))
        self.stmts(s.body)
        self.loops.pop()
      self.P.place(le)
      return
    if it.ty == 'tuple' and isinstance(s.target, ast.Name):
      le = self.P.label('forend')
      for v in it.c['items']:
        self.assign(s.target, v, s)
        self.loops.append((None, le, len(self.finals)))
        self.stmts(s.body)
        self.loops.pop()
      self.P.place(le)
      return
    self.err(s, f'for over {it.ty}')

  def s_Break(self, s):
    lh, le, depth = self.loops[-1]
    self.run_finals(depth, s)
    self.P.emit('jmp', s.lineno, t=le)

  def s_Continue(self, s):
    lh, le, depth = self.loops[-1]
    if lh is None:
      self.err(s, 'continue in an unrolled for loop')
    self.run_finals(depth, s)
    self.P.emit('jmp', s.lineno, t=lh)

  def run_finals(self, depth, node):
    """Inlines pending finally blocks (innermost first) when control leaves them by return/break/continue."""
    pending = self.finals[depth:]
    saved_f, saved_h = self.finals, self.handlers
    for idx in range(len(pending) - 1, -1, -1):
      body, hdepth = pending[idx]
      self.finals = saved_f[:depth + idx]
      self.handlers = saved_h[:hdepth]
      self.stmts(body)
    self.finals, self.handlers = saved_f, saved_h

  def s_Return(self, s):
    if self.ret is None:
      # return at thread top level
      v = self.expr(s.value) if s.value is not None else None
      self.run_finals(0, s)
      self.P.emit('halt', s.lineno)
      return
    retvar, retlabel, fdepth = self.ret
    v = self.expr(s.value) if s.value is not None else Val('none')
    v = self.materialize(v, s)
    self.run_finals(fdepth, s)
    # store into the per-call return slot
    slot = retvar[0]
    self.store_ret(slot, v, s)
    self.P.emit('jmp', s.lineno, t=retlabel)

  def store_ret(self, slot, v, node):
    slot['types'].add(v.ty)
    line = node.lineno
    if v.ty in ('int', 'bool'):
      n = self.local_ret(slot, 'int')
      self.P.emit('set', line, dst=('l', n), e=v.c['e'])
    elif v.ty == 'exc':
      n = self.local_ret(slot, 'exc')
      self.P.emit('set', line, dst=('l', n), e=v.c['kind'])
      self.P.emit('set', line, dst=('l', n + '.val'), e=v.c['val'])
    elif v.ty == 'list':
      n = self.local_ret(slot, 'list')
      self.P.emit('set', line, dst=('l', n), e=v.c['len'])
      for i in range(LIST_CAP):
        self.P.emit('set', line, dst=('l', n + f'[{i}]'), e=v.c['items'][i])
      self.P.emit('set', line, dst=('l', n + '.tk'), e=v.c.get('tk', C(0)))
      self.P.emit('set', line, dst=('l', n + '.tv'), e=v.c.get('tv', C(0)))
      if v.c.get('elem'):
        slot['elem'] = v.c['elem']
    elif v.ty in ('none', 'obj', 'iter', 'prim', 'str', 'retset'):
      slot['static'] = v
    else:
      self.err(node, f'return of {v.ty}')

  def local_ret(self, slot, ty):
    n = slot['name'] + '.' + ty
    if n not in self.P.locals:
      self.P.locals[n] = (ty if ty != 'int' else 'int', 0)
      if ty == 'exc':
        self.P.locals[n + '.val'] = ('int', 0)
      if ty == 'list':
        for i in range(LIST_CAP):
          self.P.locals[n + f'[{i}]'] = ('int', 0)
        self.P.locals[n + '.tk'] = ('int', 0)
        self.P.locals[n + '.tv'] = ('int', 0)
    return n

  def s_Assert(self, s):
    c = self.truth(self.expr(s.test), s)
    ok, bad = self.P.label('assert_ok'), self.P.label('assert_fail')
    self.P.emit('br', s.lineno, e=c, t=ok, f=bad)
    self.P.place(bad)
    self.do_raise(Val('exc', kind=C(K_ASSERT), val=C(0)), s)
    self.P.place(ok)

  def s_Raise(self, s):
    if s.exc is None:
      self.do_raise(self.cur_exc(), s)     # bare raise: re-raise the current exception
      return
    v = self.expr(s.exc)
    if v.ty != 'exc':
      self.err(s, f'raise of {v.ty}')
    self.do_raise(v, s)

  def do_raise(self, v, node):
    ex = self.cur_exc()
    self.P.emit('set', node.lineno, dst=ex.c['kind'], e=v.c['kind'])
    self.P.emit('set', node.lineno, dst=ex.c['val'], e=v.c['val'])
    kind, target = self.handlers[-1]
    self.P.emit('jmp', node.lineno, t=target)

  def s_With(self, s):
    if len(s.items) != 1 or s.items[0].optional_vars is not None:
      self.err(s, 'with form')
    ctxv = self.expr(s.items[0].context_expr)
    if ctxv.ty != 'prim' or ctxv.c['kind'] not in ('lock', 'rlock', 'cond'):
      self.err(s, f'with over {ctxv.ty}')
    self.P.emit('acq', s.lineno, lock=self.lock_of(ctxv))
    rel = [ast.Expr(value=ast.Call(func=ast.Attribute(value=s.items[0].context_expr, attr='release', ctx=ast.Load()), args=[], keywords=[]), lineno=s.lineno, col_offset=0)]
    ast.fix_missing_locations(rel[0])
    rel[0].lineno = s.lineno
    for n in ast.walk(rel[0]):
      n.lineno = s.lineno
    self.try_finally(s.body, rel, s)

  def lock_of(self, v):
    return v.c['lock'] if v.c['kind'] == 'cond' else v.c['id']

  def s_Try(self, s):
    if s.finalbody:
      inner = ast.Try(body=s.body, handlers=s.handlers, orelse=s.orelse, finalbody=[], lineno=s.lineno, col_offset=0) if (s.handlers or s.orelse) else None
      body = [inner] if inner is not None else s.body
      self.try_finally(body, s.finalbody, s)
      return
    self.try_except(s)

  def try_finally(self, body, finalbody, node):
    lexc, lend = self.P.label('fin_exc'), self.P.label('fin_end')
    self.handlers.append(('label', lexc))
    self.finals.append((finalbody, len(self.handlers) - 1))
    self.stmts(body)
    self.finals.pop()
    self.handlers.pop()
    self.stmts(finalbody)                 # normal completion
    self.P.emit('jmp', node.lineno, t=lend)
    self.P.place(lexc)                    # exceptional completion: run finally, then re-raise
    saved = self.materialize(self.cur_exc(), node)
    self.stmts(finalbody)
    self.do_raise(saved, node)
    self.P.place(lend)

  def try_except(self, s):
    lh, lelse, lend = self.P.label('except'), self.P.label('try_else'), self.P.label('try_end')
    self.handlers.append(('label', lh))
    self.stmts(s.body)
    self.handlers.pop()
    self.P.emit('jmp', s.lineno, t=lelse)
    self.P.place(lh)
    ex = self.cur_exc()
    for h in s.handlers:
      kinds = self.handler_kinds(h.type, h)
      lbody, lnext = self.P.label('hbody'), self.P.label('hnext')
      cond = None
      for k in kinds:
        t = ('op', '==', ex.c['kind'], C(k))
        cond = t if cond is None else ('op', 'or', cond, t)
      if cond is None:
        cond = FALSE
      self.P.emit('br', h.lineno, e=cond, t=lbody, f=lnext)
      self.P.place(lbody)
      self.note_line(h)
      if h.name:
        self.assign(ast.Name(id=h.name, ctx=ast.Store()), self.materialize(ex, h), h)
      self.stmts(h.body)
      self.P.emit('jmp', h.lineno, t=lend)
      self.P.place(lnext)
    self.do_raise(self.cur_exc(), s)      # no handler matched: propagate
    self.P.place(lelse)
    self.stmts(s.orelse)
    self.P.place(lend)

  def handler_kinds(self, t, node):
    if t is None:
      return EXC_NAMES['Exception']
    if isinstance(t, ast.Tuple):
      out = []
      for e in t.elts:
        out += self.handler_kinds(e, node)
      return tuple(dict.fromkeys(out))
    name = t.attr if isinstance(t, ast.Attribute) else t.id if isinstance(t, ast.Name) else None
    if name not in EXC_NAMES:
      self.err(node, f'exception class {ast.dump(t)}')
    return EXC_NAMES[name]

  # ---------------------------------------------------------------- expressions ----
  def truth(self, v, node):
    if v.ty == 'bool':
      return v.c['e']
    if v.ty == 'int':
      return ('op', '!=', v.c['e'], C(0))
    if v.ty == 'exc':
      return ('op', '!=', v.c['kind'], C(K_NONE))
    if v.ty == 'list':
      return ('op', '!=', v.c['len'], C(0))
    if v.ty == 'retset':
      return ('op', '!=', v.c['cnt'], C(0))
    if v.ty == 'none':
      return FALSE
    if v.ty == 'ref':
      return ('op', '!=', v.c['e'], C(0))
    if v.ty == 'obj':
      fn = self.lookup(self.objects[v.c['obj']].cls, '__bool__')
      if fn is not None:
        r = self.inline(self.objects[v.c['obj']], fn, [], {}, node)
        return self.truth(r, node)
      return TRUE
    if v.ty in ('prim', 'iter'):
      return TRUE
    if v.ty == 'const':
      return C(1 if v.c['v'] else 0)
    self.err(node, f'truth value of {v.ty}')

  def expr(self, e):
    m = getattr(self, 'e_' + type(e).__name__, None)
    if m is None:
      self.err(e, f'expression {type(e).__name__} not supported')
    return m(e)

  def e_Constant(self, e):
    v = e.value
    if v is None:
      return Val('none')
    if isinstance(v, bool):
      return Val('bool', e=C(int(v)))
    if isinstance(v, int):
      return Val('int', e=C(v))
    if isinstance(v, str):
      return Val('str', s=v)
    self.err(e, f'constant {v!r}')

  def e_Starred(self, e):
    return self.expr(e.value)

  def e_JoinedStr(self, e):
    return Val('str', s='<fstring>')

  def e_Name(self, e):
    key = self.scope + e.id
    if key in self.env:
      return self.env[key]
    if e.id in self.env and self.env[e.id].ty in ('obj', 'iter', 'log'):
      return self.env[e.id]
    if e.id in self.globals:
      g = self.globals[e.id]
      if isinstance(g, Val):
        return g
      if isinstance(g, bool):
        return Val('bool', e=C(int(g)))
      if isinstance(g, int):
        return Val('int', e=C(g))
    if e.id in ('STOP_ITERATION',):
      return Val('exc', kind=C(K_STOP), val=C(0))
    if e.id in EXC_NAMES or e.id in ('queue', 'asyncio', 'types', 'logging', 'lazy_fns', 'time', 'Iterable') or e.id in self.sources:
      return Val('name', name=e.id)
    self.err(e, f'unknown name {e.id}')

  def e_NamedExpr(self, e):
    v = self.materialize(self.expr(e.value), e)
    self.assign(e.target, v, e)
    return self.expr(e.target)

  def e_IfExp(self, e):
    c = self.truth(self.expr(e.test), e)
    a, b = self.expr(e.body), self.expr(e.orelse)
    return self.ite(c, a, b, e)

  def ite(self, c, a, b, node):
    if a.ty == 'none' and b.ty == 'exc':
      a = Val('exc', kind=C(K_NONE), val=C(0))
    if b.ty == 'none' and a.ty == 'exc':
      b = Val('exc', kind=C(K_NONE), val=C(0))
    if a.ty == 'exc' and b.ty == 'exc':
      return Val('exc', kind=('ite', c, a.c['kind'], b.c['kind']), val=('ite', c, a.c['val'], b.c['val']))
    if a.ty in ('int', 'bool') and b.ty in ('int', 'bool'):
      return Val(a.ty if a.ty == b.ty else 'int', e=('ite', c, a.c['e'], b.c['e']))
    self.err(node, f'conditional of {a.ty} and {b.ty}')

  def e_BoolOp(self, e):
    """`and` / `or` with python's short-circuit evaluation (later operands may contain pre-emption points)."""
    is_or = isinstance(e.op, ast.Or)
    first = self.expr(e.values[0])
    if first.ty in ('tuple', 'none', 'str') and len(e.values) == 2:
      truthy = bool(first.c.get('items')) if first.ty == 'tuple' else (bool(first.c.get('s')) if first.ty == 'str' else False)
      return first if (truthy == is_or) else self.expr(e.values[1])     # statically decided
    lend = self.P.label('boolop_end')
    if is_or and first.ty in ('exc', 'none'):
      rty = 'exc'
    elif is_or and first.ty == 'int':
      rty = 'int'
    else:
      rty = 'bool'
    res = self.local(self.fresh('bo'), rty)
    resb = self.local(self.fresh('bob'), 'bool')      # truth value of the result, always maintained
    line = e.lineno
    mode = {'rty': rty}

    def store(v):
      self.P.emit('set', line, dst=('l', resb), e=self.truth(v, e))
      if mode['rty'] == 'exc':
        if v.ty == 'none':
          v = Val('exc', kind=C(K_NONE), val=C(0))
        if v.ty != 'exc':
          mode['rty'] = 'bool'          # mixed operands: only the truth value is meaningful (condition context)
          return
        self.P.emit('set', line, dst=('l', res), e=v.c['kind'])
        self.P.emit('set', line, dst=('l', res + '.val'), e=v.c['val'])
      elif mode['rty'] == 'int':
        if v.ty not in ('int', 'bool'):
          mode['rty'] = 'bool'
          return
        self.P.emit('set', line, dst=('l', res), e=v.c['e'])

    v = first
    for idx, nxt in enumerate(e.values[1:] + [None]):
      store(v)
      if nxt is None:
        break
      c = ('l', resb)
      lnext = self.P.label('boolop_next')
      if is_or:
        self.P.emit('br', line, e=c, t=lend, f=lnext)
      else:
        self.P.emit('br', line, e=c, t=lnext, f=lend)
      self.P.place(lnext)
      v = self.expr(nxt)
    self.P.place(lend)
    if mode['rty'] == 'exc':
      return Val('exc', kind=('l', res), val=('l', res + '.val'))
    if mode['rty'] == 'int':
      return Val('int', e=('l', res))
    return Val('bool', e=('l', resb))

  def e_UnaryOp(self, e):
    v = self.expr(e.operand)
    if isinstance(e.op, ast.Not):
      return Val('bool', e=('not', self.truth(v, e)))
    if isinstance(e.op, ast.USub) and v.ty == 'int':
      return Val('int', e=('op', '-', C(0), v.c['e']))
    self.err(e, 'unary operator')

  def e_BinOp(self, e):
    a, b = self.expr(e.left), self.expr(e.right)
    op = {ast.Add: '+', ast.Sub: '-', ast.Mult: '*'}.get(type(e.op))
    if op is None or a.ty not in ('int', 'bool') or b.ty not in ('int', 'bool'):
      self.err(e, f'binary operator on {a.ty},{b.ty}')
    return Val('int', e=('op', op, a.c['e'], b.c['e']))

  def e_Compare(self, e):
    left = self.expr(e.left)
    if len(e.ops) == 1:
      return Val('bool', e=self.compare(e.ops[0], left, self.expr(e.comparators[0]), e))
    # chained comparison a op b op c: python stops evaluating operands at the first false link
    res = self.local(self.fresh('cmp'), 'bool')
    lend = self.P.label('cmp_end')
    for i, (op, rn) in enumerate(zip(e.ops, e.comparators)):
      right = self.expr(rn)
      self.P.emit('set', e.lineno, dst=('l', res), e=self.compare(op, left, right, e))
      if i + 1 < len(e.ops):
        lnext = self.P.label('cmp_next')
        self.P.emit('br', e.lineno, e=('l', res), t=lnext, f=lend)
        self.P.place(lnext)
      left = right
    self.P.place(lend)
    return Val('bool', e=('l', res))

  def compare(self, op, a, b, node):
    if isinstance(op, (ast.Is, ast.IsNot, ast.Eq, ast.NotEq)) and (a.ty == 'none' or b.ty == 'none'):
      other = b if a.ty == 'none' else a
      isnone = FALSE if other.ty in ('obj', 'prim', 'iter', 'int', 'bool', 'list', 'str') else \
          ('op', '==', other.c['kind'], C(K_NONE)) if other.ty == 'exc' else \
          ('op', '==', other.c['e'], C(0)) if other.ty == 'ref' else TRUE if other.ty == 'none' else \
          ('op', '==', other.c['e'], C(OPT_NONE)) if other.ty == 'optint' else None
      if isnone is None:
        self.err(node, f'None comparison with {other.ty}')
      return isnone if isinstance(op, (ast.Is, ast.Eq)) else ('not', isnone)
    if isinstance(op, (ast.Is, ast.IsNot)) and a.ty == 'exc' and b.ty == 'exc':
      # `e is STOP_ITERATION`: the singleton is never raised by the modelled code
      t = FALSE
      return t if isinstance(op, ast.Is) else TRUE
    if isinstance(op, (ast.Is, ast.IsNot)) and a.ty in ('obj', 'ref') and b.ty in ('obj', 'ref'):
      ea = C(self.obj_index(a.c['obj'])) if a.ty == 'obj' else a.c['e']
      eb = C(self.obj_index(b.c['obj'])) if b.ty == 'obj' else b.c['e']
      t = ('op', '==', ea, eb)
      return t if isinstance(op, ast.Is) else ('not', t)
    if a.ty in ('int', 'bool', 'optint') and b.ty in ('int', 'bool', 'optint'):
      if (a.ty == 'optint' or b.ty == 'optint') and not isinstance(op, (ast.Eq, ast.NotEq)):
        self.err(node, 'ordering comparison of an Optional[int]')       # None == 0 is False, like the encoding; None < 0 raises
      o = {ast.Eq: '==', ast.NotEq: '!=', ast.Lt: '<', ast.LtE: '<=', ast.Gt: '>', ast.GtE: '>=', ast.Is: '==', ast.IsNot: '!='}.get(type(op))
      if o is None:
        self.err(node, 'comparison operator')
      return ('op', o, a.c['e'], b.c['e'])
    self.err(node, f'comparison of {a.ty} and {b.ty}')

  def e_Attribute(self, e):
    base = self.expr(e.value)
    a = e.attr
    if base.ty == 'name':
      if a in EXC_NAMES:
        return Val('name', name=a)
      return Val('name', name=base.c['name'] + '.' + a)
    if base.ty == 'exc':
      if a == 'args':
        return Val('excargs', val=base.c['val'], kind=base.c['kind'])
      if a == 'value':
        return Val('int', e=base.c['val'])
      self.err(e, f'exception attribute {a}')
    if base.ty == 'list' and a in ('append', 'extend', 'popleft', 'clear'):
      return Val('bound', target=base, name=a)
    if base.ty == 'retset' and a in ('extend',):
      return Val('bound', target=base, name=a)
    if base.ty == 'prim':
      return Val('bound', target=base, name=a)
    if base.ty == 'log':
      return Val('bound', target=base, name=a)
    if base.ty in ('obj', 'ref'):
      return self.obj_attr(base, a, e)
    self.err(e, f'attribute {a} of {base.ty}')

  def obj_attr(self, base, a, node):
    if base.ty == 'ref':
      self.err(node, 'attribute access through a dynamic reference (use deref in the scenario)')
    spec = self.objects[base.c['obj']]
    if a in spec.prims:
      kind, pid = spec.prims[a][0], spec.prims[a][1]
      extra = {'lock': spec.prims[a][2]} if kind == 'cond' else {'attr': a} if kind == 'dict1' else {}
      return Val('prim', kind=kind, id=pid, owner=spec.name, **extra)
    if a in spec.consts:
      cv = spec.consts[a]
      if cv is None:
        return Val('none')
      if isinstance(cv, bool):
        return Val('bool', e=C(int(cv)))
      if isinstance(cv, int):
        return Val('int', e=C(cv))
      if isinstance(cv, str):
        if cv.startswith('@obj:'):
          return Val('obj', obj=cv[5:])
        return Val('str', s=cv)
      if isinstance(cv, Val):
        return cv
    if a in spec.fields:
      ty = spec.fields[a][0]
      if ty == 'exc':
        return Val('exc', kind=self.rd(spec.name, a, node), val=self.rd(spec.name, a + '.val', node))
      if ty == 'retset':
        return Val('retset', mask=('g', spec.name, a), cnt=('g', spec.name, a + '.cnt'), obj=spec.name, field=a, line=getattr(node, 'lineno', 0))
      if ty == 'ref':
        return Val('ref', e=self.rd(spec.name, a, node), candidates=spec.fields[a][2] if len(spec.fields[a]) > 2 else None)
      if ty == 'list':
        return Val('list', len=('g', spec.name, a), items=[('g', spec.name, a + f'[{i}]') for i in range(LIST_CAP)], var=('g', spec.name, a))
      return Val(ty, e=self.rd(spec.name, a, node))
    # property or method of the modelled class
    fn = self.lookup(spec.cls, a)
    if fn is not None:
      if any(isinstance(d, ast.Name) and d.id == 'property' or isinstance(d, ast.Attribute) and d.attr in ('cached_property',) for d in fn.decorator_list):
        return self.inline(spec, fn, [], {}, node)
      return Val('method', obj=spec.name, fn=fn, cls=spec.cls)
    self.err(node, f'unknown attribute {spec.cls}.{a}')

  def rd(self, obj, field, node):
    """Read of a shared field into a temporary (a separate instruction: may be a pre-emption point)."""
    t = self.local(self.fresh('r'), 'int')
    self.P.emit('set', node.lineno, dst=('l', t), e=('g', obj, field))
    return ('l', t)

  def lookup(self, cls, name):
    for c in self.mro(cls):
      fn = self.sources.get(c, {}).get(name)
      if fn is not None:
        self.cur_cls_file = self.sources[c].get('__file__', c)
        return fn
    return None

  def mro(self, cls):
    return [cls] + list(self.sources.get(cls, {}).get('__bases__', []))

  def e_Call(self, e):
    if self.is_logging(e):
      return Val('none')
    f = e.func
    # builtins --------------------------------------------------------------
    if isinstance(f, ast.Name):
      n = f.id
      if n == 'len':
        v = self.expr(e.args[0])
        if v.ty == 'list':
          return Val('int', e=v.c['len'])
        if v.ty == 'retset':
          return Val('int', e=v.c['cnt'])
        self.err(e, f'len of {v.ty}')
      if n in ('min', 'max') and len(e.args) == 2:
        a, b = self.expr(e.args[0]), self.expr(e.args[1])
        for x in (a, b):
          if x.ty == 'optint':
            lr, lo = self.P.label('optnone'), self.P.label('optok')
            self.P.emit('br', e.lineno, e=('op', '==', x.c['e'], C(OPT_NONE)), t=lr, f=lo)
            self.P.place(lr)
            self.do_raise(Val('exc', kind=C(K_RUNTIME), val=C(0)), e)      # TypeError: '>' not supported between NoneType and int
            self.P.place(lo)
          elif x.ty not in ('int', 'bool'):
            self.err(e, f'{n} of {x.ty}')
        return Val('int', e=('op', n, a.c['e'], b.c['e']))
      if n == 'next':
        return self.call_next(self.expr(e.args[0]), e)
      if n == 'iter':
        return self.expr(e.args[0])
      if n == 'isinstance':
        v = self.expr(e.args[0])
        cls = self.expr(e.args[1])
        if v.ty == 'exc' and cls.ty == 'name':
          kinds = EXC_NAMES.get(cls.c['name'].split('.')[-1])
          if kinds is None:
            self.err(e, f'isinstance against {cls.c["name"]}')
          t = FALSE
          for k in kinds:
            t = ('op', 'or', t, ('op', '==', v.c['kind'], C(k)))
          return Val('bool', e=t)
        if cls.ty == 'name' and cls.c['name'].endswith('Stoppable'):
          return Val('bool', e=C(1 if v.ty in ('obj',) and self.lookup(self.objects[v.c['obj']].cls, 'maybe_stop') is not None else 0))
        if cls.ty == 'name' and cls.c['name'].endswith('IteratorQueue') and v.ty == 'obj':
          return Val('bool', e=C(1 if self.objects[v.c['obj']].cls in ('IteratorQueue',) else 0))
        self.err(e, 'isinstance form')
      if n in EXC_NAMES:
        return self.make_exc(n, e)
      if n == 'BATCH_HAS_MARKER':
        v = self.expr(e.args[0])
        return Val('bool', e=('op', '!=', v.c.get('tk', C(0)), C(K_NONE)))
      if n == 'list':
        return self.expr(e.args[0]) if e.args else self.empty_list()
      fn = self.sources.get('', {}).get(n)
      if fn is not None:
        args = [self.expr(a) for a in e.args]
        kw = {k.arg: self.expr(k.value) for k in e.keywords}
        return self.inline(None, fn, args, kw, e)
      self.err(e, f'call of {n}')
    if isinstance(f, ast.Attribute):
      # exception constructors like queue.Empty(...) ---------------------------
      if f.attr in EXC_NAMES and isinstance(f.value, ast.Name) and f.value.id in ('queue', 'asyncio'):
        return self.make_exc(f.attr, e)
      if isinstance(f.value, ast.Call) and isinstance(f.value.func, ast.Name) and f.value.func.id == 'super':
        cur = self.cur_spec
        bases = self.mro(self.cur_cls)[1:]
        for c in bases:
          fn = self.sources.get(c, {}).get(f.attr)
          if fn is not None:
            args = [self.expr(a) for a in e.args]
            kw = {k.arg: self.expr(k.value) for k in e.keywords}
            return self.inline(cur, fn, args, kw, e, cls=c)
        self.err(e, f'super().{f.attr} not found')
      if f.attr in ('_return_pickled', 'maybe_make', 'maybe_unpickle', 'dumps', 'loads') and e.args:
        base_is_self = isinstance(f.value, ast.Name) and f.value.id == 'self'
        base_is_lazy = 'lazy_fns' in ast.dump(f.value)
        if (f.attr == '_return_pickled' and base_is_self) or base_is_lazy:
          return self.expr(e.args[0])           # (un)pickling / materialising a plain value is the identity for the model
      if f.attr == 'time' and isinstance(f.value, ast.Name) and f.value.id == 'time':
        return Val('int', e=C(0))
      target = self.expr(f)
      if target.ty == 'method':
        args = [self.expr(a) for a in e.args]
        kw = {k.arg: self.expr(k.value) for k in e.keywords}
        return self.inline(self.objects[target.c['obj']], target.c['fn'], args, kw, e, cls=target.c.get('cls'))
      if target.ty == 'bound':
        return self.call_bound(target, e)
      self.err(e, f'call of {target.ty}')
    self.err(e, 'call form')

  def make_exc(self, name, e):
    kinds = EXC_NAMES[name]
    kind = kinds[0]
    val = C(0)
    if e.args:
      a0 = e.args[0]
      if isinstance(a0, ast.Starred):
        v = self.expr(a0.value)
        if v.ty == 'retset':
          at = ast.Pass(lineno=v.c.get('line') or e.lineno, col_offset=0)     # the attribute is loaded where the (inlined) property body reads it
          val = ('op', '+', self.rd(v.c['obj'], v.c['field'], at), ('op', '*', self.rd(v.c['obj'], v.c['field'] + '.cnt', at), C(16)))
        elif v.ty == 'excargs':
          val = v.c['val']
        else:
          self.err(e, f'*{v.ty} in exception constructor')
      else:
        v = self.expr(a0)
        if v.ty in ('int', 'bool'):
          val = v.c['e']
        elif v.ty in ('str', 'none'):
          val = C(0)
        elif v.ty == 'exc':
          val = v.c['val']
        else:
          self.err(e, f'exception argument {v.ty}')
    return Val('exc', kind=C(kind), val=val)

  def obj_id(self, name):
    return 1 + sorted(self.objects).index(name)

  def empty_list(self):
    return Val('list', len=C(0), items=[C(0)] * LIST_CAP)

  def e_List(self, e):
    if len(e.elts) > LIST_CAP:
      self.err(e, 'list literal too long')
    items, tk, tv = [], C(0), C(0)
    for i, x in enumerate(e.elts):
      v = self.expr(x)
      if v.ty == 'exc' and i == len(e.elts) - 1:
        tk, tv = v.c['kind'], v.c['val']
        continue
      if v.ty not in ('int', 'bool'):
        self.err(e, 'list literal of non-ints')
      items.append(v.c['e'])
    return Val('list', len=C(len(items)), items=items + [C(0)] * (LIST_CAP - len(items)), tk=tk, tv=tv)

  def e_Tuple(self, e):
    return Val('tuple', items=[self.expr(x) for x in e.elts])

  def e_Subscript(self, e):
    v = self.expr(e.value)
    if v.ty == 'list' and isinstance(e.slice, ast.Constant) and isinstance(e.slice.value, int):
      return Val('int', e=v.c['items'][e.slice.value])
    self.err(e, 'subscript')

  # ---------------------------------------------------------------- primitives ----
  def call_next(self, it, e):
    line = e.lineno
    if it.ty == 'iter':
      dst = self.local(self.fresh('nx'), 'int')
      lok, lstop, lerr = self.P.label('next_ok'), self.P.label('next_stop'), self.P.label('next_err')
      ex = self.cur_exc()
      self.P.emit('next', line, it=it.c['it'], dst=('l', dst), exk=ex.c['kind'], exv=ex.c['val'], ok=lok, stop=lstop, err=lerr)
      self.P.place(lstop)
      self.P.emit('jmp', line, t=self.handlers[-1][1])
      self.P.place(lerr)
      self.P.emit('jmp', line, t=self.handlers[-1][1])
      self.P.place(lok)
      return Val('int', e=('l', dst))
    if it.ty == 'obj':
      spec = self.objects[it.c['obj']]
      fn = self.lookup(spec.cls, '__next__')
      if fn is None:
        self.err(e, f'{spec.cls} has no __next__')
      return self.inline(spec, fn, [], {}, e)
    self.err(e, f'next() of {it.ty}')

  def call_bound(self, b, e):
    t, name, line = b.c['target'], b.c['name'], e.lineno
    args = [self.expr(a) for a in e.args]
    kw = {k.arg: self.expr(k.value) for k in e.keywords}
    if t.ty == 'log':
      v = args[0] if args else Val('int', e=C(0))
      tag = {'item': 0, 'stop': 1, 'err': 2, 'timeout': 3, 'ret': 4}.get(name)
      if tag is None:
        self.err(e, f'log method {name}')
      if v.ty == 'exc':
        self.P.emit('log', line, log=t.c['log'], tag=C(tag), kind=v.c['kind'], val=v.c['val'])
      elif v.ty in ('int', 'bool'):
        self.P.emit('log', line, log=t.c['log'], tag=C(tag), kind=C(0), val=v.c['e'])
      elif v.ty == 'list':
        for i in range(LIST_CAP):
          lb, ls = self.P.label('logit'), self.P.label('logskip')
          self.P.emit('br', line, e=('op', '<', C(i), v.c['len']), t=lb, f=ls)
          self.P.place(lb)
          self.P.emit('log', line, log=t.c['log'], tag=C(tag), kind=C(0), val=v.c['items'][i])
          self.P.place(ls)
        if 'tk' in v.c:          # trailing exception marker: logged as stop (StopIteration) or err (anything else)
          lb, ls = self.P.label('logtail'), self.P.label('logtailskip')
          self.P.emit('br', line, e=('op', '!=', v.c['tk'], C(K_NONE)), t=lb, f=ls)
          self.P.place(lb)
          self.P.emit('log', line, log=t.c['log'], tag=('ite', ('op', '==', v.c['tk'], C(K_STOP)), C(1), C(2)), kind=v.c['tk'], val=v.c['tv'])
          self.P.place(ls)
      else:
        self.P.emit('log', line, log=t.c['log'], tag=C(tag), kind=C(0), val=C(0))
      return Val('none')
    if t.ty == 'list':
      if 'var' not in t.c:
        self.err(e, 'method on a temporary list')
      var = t.c['var']
      if name == 'append':
        v = args[0]
        if v.ty == 'exc' and var[0] == 'l':
          # an exception object appended as the LAST element (terminal marker of a batch)
          self.P.emit('set', line, dst=('l', var[1] + '.tk'), e=v.c['kind'])
          self.P.emit('set', line, dst=('l', var[1] + '.tv'), e=v.c['val'])
          return Val('none')
        if v.ty == 'obj':
          # a list of modelled objects holds their ids; iteration dispatches on the id (see s_For)
          cls = self.objects[v.c["obj"]].cls
          if t.c.get('elem', ('obj', cls)) != ('obj', cls) or (t.c.get('elem') is None and not (isinstance(t.c['len'], tuple) and t.c['len'][0] in ('l', 'g'))):
            self.err(e, 'append of an object to a list of something else')
          t.c['elem'] = ('obj', cls)
          self.P.emit('lappend', line, var=var, e=C(self.obj_id(v.c['obj'])))
          return Val('none')
        if v.ty not in ('int', 'bool'):
          self.err(e, f'append of {v.ty}')
        if t.c.get('elem'):
          self.err(e, 'append of an int to a list of objects')
        self.P.emit('lappend', line, var=var, e=v.c['e'])
        return Val('none')
      if name == 'extend':
        v = args[0]
        if v.ty != 'list':
          self.err(e, f'extend with {v.ty}')
        for i in range(LIST_CAP):
          lb, ls = self.P.label('ext'), self.P.label('extskip')
          self.P.emit('br', line, e=('op', '<', C(i), v.c['len']), t=lb, f=ls)
          self.P.place(lb)
          self.P.emit('lappend', line, var=var, e=v.c['items'][i])
          self.P.place(ls)
        return Val('none')
      if name == 'popleft':
        dst = self.local(self.fresh('pl'), 'int')
        self.P.emit('lpopleft', line, var=var, dst=('l', dst))
        return Val('int', e=('l', dst))
      self.err(e, f'list.{name}')
    if t.ty == 'retset' and name == 'extend':
      v = args[0] if args else None
      # self._returned.extend(values) with values = e.args of a producer's StopIteration
      self.err(e, 'retset.extend handled at the call site') if v is None else None
      if v.ty == 'excargs':
        self.P.emit('retadd', line, obj=t.c['obj'], field=t.c['field'], val=v.c['val'])
        return Val('none')
      if v.ty == 'tuple' and not v.c['items']:
        return Val('none')
      if v.ty == 'varargs':
        if v.c['v'] is None:
          return Val('none')
        self.P.emit('retadd', line, obj=t.c['obj'], field=t.c['field'], val=v.c['v'])
        return Val('none')
      self.err(e, f'retset.extend({v.ty})')
    if t.ty == 'prim' and t.c['kind'] == 'dict1':
      # a dict that is only ever used with ONE constant key: a single Optional[int] slot (OPT_ABSENT = no entry)
      spec = self.objects[t.c['owner']]
      key = args[0] if args else None
      if key is None or key.ty != 'str' or key.c['s'] != spec.prims[t.c['attr']][2]:
        self.err(e, f'dict access with a key other than the modelled one: {key}')
      if name != 'get':
        self.err(e, f'dict.{name}')
      d = args[1] if len(args) > 1 else Val('none')
      de = C(OPT_NONE) if d.ty == 'none' else d.c['e'] if d.ty in ('int', 'bool', 'optint') else self.err(e, f'dict.get default {d.ty}')
      cur = self.rd(t.c['owner'], t.c['id'], e)
      return Val('optint', e=('ite', ('op', '==', cur, C(OPT_ABSENT)), de, cur))
    if t.ty == 'prim':
      k = t.c['kind']
      if k in ('lock', 'rlock', 'cond'):
        lock = self.lock_of(t)
        if name in ('acquire', '__enter__'):
          blocking = kw.get('blocking', args[0] if args else None)
          if blocking is not None and blocking.ty == 'bool' and blocking.c['e'] == FALSE:
            dst = self.local(self.fresh('acq'), 'bool')
            self.P.emit('tryacq', line, lock=lock, dst=('l', dst))
            return Val('bool', e=('l', dst))
          if blocking is not None and blocking.ty in ('bool', 'int') and blocking.c['e'] != TRUE:
            # run-time flag: blocking acquire or try-acquire
            dst = self.local(self.fresh('acq'), 'bool')
            lb, lt, le = self.P.label('acq_blocking'), self.P.label('acq_try'), self.P.label('acq_end')
            self.P.emit('br', line, e=self.truth(blocking, e), t=lb, f=lt)
            self.P.place(lb)
            self.P.emit('acq', line, lock=lock)
            self.P.emit('set', line, dst=('l', dst), e=TRUE)
            self.P.emit('jmp', line, t=le)
            self.P.place(lt)
            self.P.emit('tryacq', line, lock=lock, dst=('l', dst))
            self.P.place(le)
            return Val('bool', e=('l', dst))
          self.P.emit('acq', line, lock=lock)
          return Val('bool', e=TRUE)
        if name in ('release', '__exit__'):
          self.P.emit('rel', line, lock=lock)
          return Val('none')
        if name == 'locked':
          dst = self.local(self.fresh('lk'), 'bool')
          self.P.emit('set', line, dst=('l', dst), e=('locked', lock))
          return Val('bool', e=('l', dst))
        if k == 'cond' and name == 'wait':
          to = kw.get('timeout', args[0] if args else Val('none'))
          dst = self.local(self.fresh('w'), 'bool')
          self.P.emit('wait', line, cond=t.c['id'], lock=lock)
          self.P.emit('wake', line, cond=t.c['id'], lock=lock, dst=('l', dst), timed=(to.ty != 'none'))
          if to.ty == 'none':
            return Val('bool', e=TRUE)         # wait() without timeout can only return True
          return Val('bool', e=('l', dst))
        if k == 'cond' and name in ('notify', 'notify_all'):
          self.P.emit('notify', line, cond=t.c['id'], all=(name == 'notify_all'))
          return Val('none')
      if k == 'queue':
        q = t.c['id']
        if name == 'get_nowait':
          dst = self.local(self.fresh('qv'), 'int')
          lok, lemp = self.P.label('qget_ok'), self.P.label('qget_empty')
          self.P.emit('qget', line, q=q, dst=('l', dst), ok=lok, empty=lemp)
          self.P.place(lemp)
          self.do_raise(Val('exc', kind=C(K_EMPTY), val=C(0)), e)
          self.P.place(lok)
          return Val('int', e=('l', dst))
        if name == 'put_nowait':
          v = args[0]
          lok, lfull = self.P.label('qput_ok'), self.P.label('qput_full')
          self.P.emit('qput', line, q=q, e=v.c['e'], ok=lok, full=lfull)
          self.P.place(lfull)
          self.do_raise(Val('exc', kind=C(K_FULL), val=C(0)), e)
          self.P.place(lok)
          return Val('none')
        if name == 'empty':
          dst = self.local(self.fresh('qe'), 'bool')
          self.P.emit('set', line, dst=('l', dst), e=('qempty', q))
          return Val('bool', e=('l', dst))
      if k == 'pool' and name == 'shutdown':
        self.P.emit('join', line, threads=t.c['threads'])
        return Val('none')
      if k == 'thread':
        if name == 'start':
          self.P.emit('tstart', line, thread=t.c['id'])
          return Val('none')
        if name == 'join':
          self.P.emit('join', line, threads=[t.c['id']])
          return Val('none')
        if name == 'is_alive':
          dst = self.local(self.fresh('al'), 'bool')
          self.P.emit('set', line, dst=('l', dst), e=('alive', t.c['id']))
          return Val('bool', e=('l', dst))
    self.err(e, f'call of {t.ty}.{name}')

  # ---------------------------------------------------------------- inlining ----
  def inline(self, spec, fn, args, kw, node, cls=None):
    if self.inline_depth > 12:
      self.err(node, 'inlining too deep (recursion?)')
    self.inline_depth += 1
    saved = (self.scope, self.ret, self.file, getattr(self, 'cur_spec', None), getattr(self, 'cur_cls', None), self.loops)
    self.uid += 1
    self.scope = f'{fn.name}@{self.uid}.'
    self.loops = []
    self.cur_spec = spec
    self.cur_cls = cls or (spec.cls if spec else '')
    src_file = self.sources.get(self.cur_cls, {}).get('__file__') or self.sources.get('', {}).get('__file__', '?')
    self.file = src_file
    params = [a.arg for a in fn.args.args]
    defaults = fn.args.defaults
    dmap = {}
    for p, d in zip(params[len(params) - len(defaults):], defaults):
      dmap[p] = d
    kwonly = {a.arg: d for a, d in zip(fn.args.kwonlyargs, fn.args.kw_defaults)}
    pos = list(args)
    if spec is not None and params and params[0] == 'self':
      self.env[self.scope + 'self'] = Val('obj', obj=spec.name)
      params = params[1:]
    for p in params:
      if pos:
        v = pos.pop(0)
      elif p in kw:
        v = kw[p]
      elif p in dmap:
        v = self.expr(dmap[p])
      else:
        self.err(node, f'missing argument {p} for {fn.name}')
      self.bind_param(p, v, node)
    for p, d in kwonly.items():
      v = kw[p] if p in kw else self.expr(d)
      self.bind_param(p, v, node)
    if fn.args.vararg is not None:
      # *values: at most one (exception payload) argument in the modelled code
      if len(pos) > 1:
        self.err(node, 'more than one *arg')
      if pos and pos[0].ty == 'excargs':
        self.env[self.scope + fn.args.vararg.arg] = pos[0]
      elif pos:
        self.err(node, f'*arg of {pos[0].ty}')
      else:
        self.env[self.scope + fn.args.vararg.arg] = Val('tuple', items=[])
    slot = {'name': self.scope + '$ret', 'types': set(), 'static': None}
    retlabel = self.P.label('ret')
    self.ret = ([slot], retlabel, len(self.finals))
    self.stmts(fn.body)
    # falling off the end returns None
    slot['types'].add('none') if not slot['types'] else None
    self.P.place(retlabel)
    result = self.ret_value(slot, node)
    self.scope, self.ret, self.file, self.cur_spec, self.cur_cls, self.loops = saved
    self.inline_depth -= 1
    return result

  def bind_param(self, p, v, node):
    if v.ty in ('int', 'bool', 'exc', 'list'):
      v = self.materialize(v, node) if v.ty != 'list' else v
      if v.ty == 'list':
        self.assign(ast.Name(id=p, ctx=ast.Store()), v, node)
        return
      self.env[self.scope + p] = v
      # parameters may be re-assigned in the body: give them a real local
      self.assign(ast.Name(id=p, ctx=ast.Store()), v, node)
    else:
      self.env[self.scope + p] = v

  def ret_value(self, slot, node):
    tys = slot['types'] - {'none'}
    if tys & {'obj', 'iter', 'prim', 'str', 'retset'}:
      if len(tys) > 1:
        self.err(node, f'mixed return types {tys}')
      return slot['static']
    if not tys:
      return slot['static'] if slot['static'] is not None and slot['static'].ty != 'none' else Val('none')
    if tys <= {'int', 'bool'}:
      n = slot['name'] + '.int'
      return Val('bool' if tys == {'bool'} else 'int', e=('l', n))
    if tys == {'exc'}:
      n = slot['name'] + '.exc'
      return Val('exc', kind=('l', n), val=('l', n + '.val'))
    if tys == {'list'}:
      n = slot['name'] + '.list'
      r = Val('list', len=('l', n), items=[('l', n + f'[{i}]') for i in range(LIST_CAP)], var=('l', n), tk=('l', n + '.tk'), tv=('l', n + '.tv'))
      if slot.get('elem'):
        r.c['elem'] = slot['elem']
      return r
    self.err(node, f'mixed return types {tys}')


def dce(prog):
  """Removes assignments to locals that are never read (values only used by dropped logging calls)."""
  changed = True
  while changed:
    changed = False
    read = set()
    def ex(e):
      if isinstance(e, tuple):
        if e and e[0] == 'l':
          read.add(e[1])
        for x in e[1:]:
          ex(x)
      elif isinstance(e, Val):
        for c in e.c.values():
          ex(c)
      elif isinstance(e, list):
        for x in e:
          ex(x)
    for ins in prog.ins:
      for k, v in ins.items():
        if k in ('dst', 'op', 'line', 't', 'f', 'ok', 'empty', 'full', 'stop', 'err'):
          continue
        ex(v)
      if ins['op'] in ('next',):
        pass
      if ins['op'] in ('lappend', 'lpopleft') and ins['var'][0] == 'l':
        read.add(ins['var'][1])
        for i in range(LIST_CAP):
          read.add(ins['var'][1] + f'[{i}]')
    for ins in prog.ins:
      if ins['op'] == 'set' and ins['dst'][0] == 'l' and ins['dst'][1] not in read and not ins['dst'][1].startswith('$'):
        e = ins.get('e')
        if isinstance(e, tuple) and e and e[0] in ('g', 'qempty', 'locked'):
          # a read of shared state stays even when only a dropped logging call used its value: the real code performs it, and
          # if it is unprotected it is a pre-emption point that the replay will see (same source line as later reads)
          continue
        ins.clear()
        ins.update(op='nop', line=0)
        changed = True
  return prog


def load_sources(module_files, class_names, function_names=()):
  """Parses the CURRENT source files and returns {class: {method: FunctionDef, '__bases__': [...], '__file__': path}, '': {fn: FunctionDef}}."""
  out = {'': {}}
  for path in module_files:
    with open(path) as f:
      tree = ast.parse(f.read())
    for node in tree.body:
      if isinstance(node, ast.ClassDef) and node.name in class_names:
        d = {'__file__': path, '__bases__': [b.id if isinstance(b, ast.Name) else b.value.id if isinstance(b, ast.Subscript) and isinstance(b.value, ast.Name) else
                                             b.attr if isinstance(b, ast.Attribute) else '' for b in node.bases]}
        for m in node.body:
          if isinstance(m, ast.FunctionDef):
            d[m.name] = m
        out[node.name] = d
      if isinstance(node, ast.FunctionDef) and node.name in function_names:
        out[''][node.name] = node
        out['']['__file__'] = path
  return out
