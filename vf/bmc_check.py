"""Shared driver for engine-B checks: scenario -> system -> BMC -> replay -> report."""
import os
import time

from vf import common, srun


HOLDER = {}


def build(sc):
  from vf import bmc_models as M
  if sc.get('kind') == 'registry':
    sysm = M.build_registry_system(tuple(sc['ops']), sc['init'])
    return sysm, M.registry_drivers(tuple(sc['ops']))
  if sc.get('kind') == 'ownership':
    sysm = M.build_ownership_system(sc.get('variant', 'nonblocking'), sc.get('nworkers', 1))
    v = sc.get('variant', 'nonblocking')
    da, db = M.ownership_drivers(v)
    drivers = {'pool_a': da, 'pool_b': db}
    return sysm, drivers
  if sc.get('kind') == 'prefetch':
    sysm = M.build_prefetch_system(sc['items'], sc['prefetch'], sc['batch'], fail=tuple(sc['fail']) if sc.get('fail') else None, stopper=sc.get('stopper'))
    drivers = {'prefetch': M.WORKER.format(src='SRC0'), 'client': M.CLIENT_LOOP.format(bs=sc['batch'])}
    if sc.get('stopper'):
      drivers['shutdown'] = M.SHUTDOWN.format(fatal='True' if sc['stopper'] == 'fatal' else 'False')
    return sysm, drivers
  if sc.get('kind') == 'mux':
    ns = sc.get('num_steps', 255)
    sysm = M.build_multiplex_system(sc['par'], sc['items'], shared=sc.get('shared', True), num_steps=('NS', ns if isinstance(ns, tuple) else (ns, ns)),
                                    fail={int(k): tuple(v) for k, v in sc['fail'].items()} if sc.get('fail') else None)
    drivers = {f'worker{p}': M.WORKER.format(src='TSI' if sc.get('shared', True) else f'SRC{p}') for p in range(sc['par'])}
    drivers['main'] = M.MAIN_MUX
    return sysm, drivers
  cap = sc['cap']
  to = sc.get('timeout')
  kw = dict(consumer=sc.get('consumer', 'get'), timeout=None)
  if to is not None:
    kw.update(timeout='TO', timeouts=to if isinstance(to, tuple) else (to, to))
  if isinstance(cap, tuple):
    kw.update(qcap='CAP', caps=cap)
  else:
    kw.update(qcap=cap)
  if sc.get('consumer') == 'batch':
    kw.update(batch=('BS', (sc['batch'], sc['batch'])), block=('BLK', (sc['block'], sc['block'])))
  if sc.get('fail'):
    kw['fail'] = {int(k): tuple(v) for k, v in sc['fail'].items()}
  if sc.get('stopper'):
    kw['stopper'] = sc['stopper']
  if sc.get('max_enqueuer') is not None:
    kw['max_enqueuer'] = sc['max_enqueuer']
  sysm = M.build_queue_system(sc['nprod'], sc['items'], sc['ncons'], **kw)
  drivers = {}
  for p in range(sc['nprod']):
    drivers[f'producer{p}'] = M.PRODUCER.format(src=f'SRC{p}')
  for c in range(sc['ncons']):
    tmpl = {'get': M.CONSUMER_GET, 'batch': M.CONSUMER_BATCH, 'get-stop-get': M.CONSUMER_GET_STOP_GET}[sc.get('consumer', 'get')]
    drivers[f'consumer{c}'] = tmpl.format(log=f'LOG{c}', bs='BS', block='BLK')
  if sc.get('stopper'):
    drivers['stopper'] = M.STOPPER.format(exc={'stop': 'None', 'error': 'UserError(9)'}[sc['stopper']])
  return sysm, drivers


def predicates(sc, sysm):
  """(z3 final-state predicate builder, python twin for the replay)."""
  import z3
  from vf import bmc_models as M
  pred = sc.get('pred', 'c04')
  if pred == 'c20reg':
    return (lambda enc, st: z3.Not(M.c20_registry_ok(enc, sysm, st))), (lambda logs, params: M.c20_registry_ok_py(sysm.meta, globals().get('_LAST_HOLDER') or {}, params))
  if pred == 'c20':
    return (lambda enc, st: z3.Not(M.c20_ok(enc, sysm, st))), (lambda logs, params: M.c20_ok_py(logs, globals().get('_LAST_HOLDER') or {}))
  if pred == 'c15':
    return (lambda enc, st: z3.Not(M.c15_ok(enc, sysm, st))), (lambda logs, params: M.c15_ok_py(sysm.meta, logs, params))
  if pred == 'c13':
    nsd = sysm.objects['DQ'].consts['_num_steps']
    return (lambda enc, st: z3.Not(M.c13_ok(enc, sysm, st))), (lambda logs, params: M.c13_ok_py(sysm.meta, logs, params, nsd if isinstance(nsd, int) else 255))
  if pred == 'c04':
    return (lambda enc, st: z3.Not(M.c04_ok(enc, sysm, st))), (lambda logs, params: M.c04_ok_py(sysm.meta, logs))
  mode = pred.split(':')[1]
  return (lambda enc, st: z3.Not(M.c05_ok(enc, sysm, st, mode))), (lambda logs, params: M.c05_ok_py(sysm.meta, logs, mode, params))


def worker(job):
  sc, tier = job
  import z3
  from vf import bmc_models as M, pybmc as B, bmc_replay as R, pybmc_front as F
  t0 = time.time()
  out = {'job': sc['name'], 'scenario': {k: v for k, v in sc.items() if k != 'depths'}}
  if sc.get('hunt'):
    out['scenario']['hunt_depths'] = list(sc['depths'])
  try:
    sysm, drivers = build(sc)
  except F.Unsupported as e:
    out.update(verdict='unsupported', detail=str(e))
    return out
  budget = int(os.environ.get('VF_BMC_BUDGET', 1500 if tier == 'quick' else 2400))      # wall seconds per scenario
  plog = os.path.join(common.VERIF, '.work', 'logs', 'bmc_progress'); os.makedirs(plog, exist_ok=True)
  pfile = os.path.join(plog, f"{str(sc.get('pred', 'c04')).split(':')[0]}-{tier}-{sc['name']}.txt")
  def progress(depth, secs):
    with open(pfile, 'a') as f: f.write(f'depth {depth} decided after {secs:.0f}s\n')
  try:
    bad_final, ok_py = predicates(sc, sysm)
    bad_stuck = None
    if sc.get('stuck_ok'):
      # termination is outside this scenario's claim (see the check's docstring): blocked end states only have to satisfy the safety part
      bad_stuck = lambda enc, st: z3.Not(M.c20_ok(enc, sysm, st, final=False))
    depths = tuple(sc['depths'])
    if tier == 'thorough' and not sc.get('hunt'):
      # small first levels: when the time budget ends early at least these depths have been decided
      depths = tuple(sorted(set((20, 30) + depths)))
    r = B.bmc(sysm, bad_final=bad_final, depths=depths, timeout_s=budget, want_trace_of_ok=True, bad_stuck=bad_stuck, progress=progress)
  except B.Unsupported as e:
    out.update(verdict='unsupported', detail=str(e))
    return out
  with open(pfile, 'a') as f: f.write(f'{r.verdict} {r.detail} depth {r.depth} after {time.time() - t0:.0f}s\n')
  out.update(budget_exhausted=bool(getattr(r, 'budget_exhausted', False)), verdict=r.verdict, detail=r.detail, depth=r.depth, stats=r.stats, pp=r.pp_counts, racy=r.racy, states=r.states, transitions=r.transitions,
             encoded_lines=len(sysm.meta['encoded_lines']), dropped_logging_lines=len(sysm.meta['dropped_lines']), bmc_wall=round(time.time() - t0, 1))
  out['threads'] = [p.name for p in sysm.threads]
  if r.trace is not None:
    glue = {'mux': M.multiplex_threads, 'prefetch': M.prefetch_threads, 'ownership': M.ownership_threads, 'registry': M.registry_threads}.get(sc.get('kind'), M.queue_threads)
    make, logs, holder = glue(sysm, r.enc, r.trace, drivers)
    HOLDER.clear(); HOLDER.update(holder) if isinstance(holder, dict) else None
    globals()['_LAST_HOLDER'] = holder
    try:
      rr = R.run_schedule(sysm, r.enc, r.trace, make)
      real_logs = {k: v.entries for k, v in logs.items()}
      out['replay'] = {'status': rr['status'], 'blocked': rr.get('blocked'), 'final': rr.get('final'), 'where': {k: list(v) if v else None for k, v in rr.get('where', {}).items()},
                       'logs': real_logs}
      if r.verdict == 'exhausted':
        # conformance: a complete passing execution chosen by the solver must behave identically on the real code
        same = all(list(map(tuple, r.trace['logs'][k])) == real_logs[k] for k in real_logs) and not rr.get('blocked')
        why = ''
        if same and sc.get('kind') in ('registry', 'ownership'):
          # the end state lives in the objects, not in the logs: the python twin of the predicate must accept it
          same, why = ok_py(logs, r.trace['params'])
        out['conformance'] = bool(same)
        if not same:
          out['conformance_detail'] = f"model logs {r.trace['logs']} real logs {real_logs} blocked {rr.get('blocked')} {why}"
      elif r.verdict == 'deadlock':
        blocked_model = sorted(n for n, f in r.trace['final'].items() if not f['halted'])
        out['reproduced'] = sorted(rr.get('blocked') or []) == blocked_model and bool(blocked_model)
        out['what'] = f"deadlock: threads {blocked_model} blocked forever at {[(n, r.trace['final'][n]['op'], r.trace['final'][n]['line']) for n in blocked_model]}; params {r.trace['params']}"
      else:
        ok, why = ok_py(logs, r.trace['params'])
        if sc.get('stuck_ok') and rr.get('blocked'):
          ok, why = M.c20_ok_py(logs, holder, final=False)
          out['reproduced'] = not ok
        else:
          out['reproduced'] = (not ok) or bool(rr.get('blocked'))
        out['what'] = f'final state violates the property on the real code: {why or "thread blocked"}; params {r.trace["params"]}; real logs {real_logs}'
    except R.Mismatch as e:
      out['replay'] = {'status': 'mismatch', 'detail': str(e)}
      out['reproduced'] = False
    out['trace'] = {'params': r.trace['params'], 'steps': r.trace['steps'], 'schedule': [(s['name'], s['op'], s['line']) for s in r.trace['steps']], 'final': r.trace['final'], 'logs': r.trace['logs']}
  out['wall'] = round(time.time() - t0, 1)
  return out


def signature(res):
  t = res.get('trace') or {}
  sc = res.get('scenario') or {}
  if sc.get('pred') == 'c15' and res['verdict'] == 'violation' and 'generator failed at position' in (res.get('what') or ''):
    logs = ((res.get('replay') or {}).get('logs') or {}).get('LOG0') or []
    fail = (t.get('params') or {}).get('FAIL0', 255)
    items = [e for e in logs if e[0] == 0]
    if logs and logs[-1][0] == 2 and len(items) < fail and items == sorted(items):
      # known finding: the error marker arrives, in order, but elements dequeued into the same (partial) batch are dropped
      return 'prefetch-failure-discards-the-partial-batch-dequeued-before-it'
  fin = t.get('final') or {}
  blocked = sorted((n.rstrip('0123456789'), f['op'], f['line']) for n, f in fin.items() if not f['halted'])
  return f"{res['verdict']}:{blocked}" if res['verdict'] == 'deadlock' else f"{res['verdict']}:{res['job']}"


def absorb(rep, results, pid):
  cov = rep.cov
  cov.setdefault('states', 0); cov.setdefault('transitions', 0); cov.setdefault('traces_validated_against_impl', 0)
  cov['scenario_table'] = []
  for res in results:
    name = res['job']
    if 'error' in res:
      rep.obligation(None, str(name), 'worker error: ' + res['error'] + ' ' + res.get('trace', '')[-300:])
      continue
    cov['scenario_table'].append({k: res.get(k) for k in ('job', 'verdict', 'detail', 'depth', 'pp', 'wall', 'bmc_wall', 'conformance')})
    st = res.get('stats') or {}
    for k in ('queries', 'sat', 'unsat', 'unknown'):
      cov['solver'][k] += st.get(k, 0)
    cov['solver']['time_s'] = round(cov['solver']['time_s'] + st.get('time', 0.0), 1)
    cov['states'] += res.get('states', 0)
    cov['transitions'] += res.get('transitions', 0)
    cov['evaluations'] += 1
    v = res['verdict']
    if v == 'exhausted':
      rep.obligation(True, name)
      cov['distinct_nontrivial'] += 1
      rep.witness(bool(res.get('trace')), name + ':all-threads-can-finish', 'no complete passing execution exists within the bound (parameter constraints unsatisfiable?)')
      if res.get('conformance') is True:
        cov['traces_validated_against_impl'] += 1
      elif res.get('conformance') is False:
        rep.obligation(None, name, 'model/real-code disagreement on a passing execution: ' + res.get('conformance_detail', ''))
      elif res.get('replay', {}).get('status') == 'mismatch':
        rep.obligation(None, name, 'passing execution could not be replayed on the real code: ' + res['replay'].get('detail', ''))
      rep.sample({'scenario': res['scenario'], 'verdict': 'no deadlock / no bad final state; unwinding query unsat', 'depth': res['depth'],
                  'pre-emption points per thread': res['pp'], 'sample passing schedule': (res.get('trace') or {}).get('schedule', [])[:12]})
    elif v in ('deadlock', 'violation'):
      if res.get('reproduced'):
        cov['traces_validated_against_impl'] += 1
        rep.violation(signature(res), f"{name}: {res.get('what')}", {'engine': 'pybmc', 'scenario': res['scenario'], 'trace': res.get('trace'), 'replay': res.get('replay')})
      else:
        rep.obligation(None, name, f"HARNESS-ERROR {v} trace did not reproduce on the real code: {res.get('replay')}")
    elif v == 'bound' and res.get('depth') and (res.get('budget_exhausted') or rep.tier == 'thorough' or ((res.get('scenario') or {}).get('hunt') and res.get('depth') == max(res['scenario'].get('hunt_depths') or [0]))):
      # thorough tier: a scenario that neither exhausts nor violates inside its depth list / time budget is a depth-bounded result
      # depth-bounded scenario ("bug hunting" in CBMC's terms): every interleaving of up to `depth` macro-steps was decided, longer executions were not
      rep.obligation(True, name + f':depth<={res["depth"]}')
      cov.setdefault('depth_bounded_scenarios', []).append({'job': name, 'depth': res['depth'], 'note': 'no deadlock / bad state within this many macro-steps; the unwinding '
                                                            'query is sat, i.e. longer executions exist and are NOT covered' + ('; the per-scenario time budget ended here' if res.get('budget_exhausted') else '')})
      rep.sample({'scenario': res['scenario'], 'verdict': f'no deadlock / no bad state in any interleaving of <= {res["depth"]} macro-steps (depth-bounded, not exhaustive)',
                  'pre-emption points per thread': res['pp']})
    elif v == 'bound':
      rep.obligation(None, name, f"depth bound {res.get('depth')} too small (unwinding query sat) - {res.get('detail')}")
    else:
      rep.obligation(None, name, f"{v}: {res.get('detail')}")




def replay(data):
  """./run.py C04 --replay file : re-runs the recorded schedule on the current /repo code."""
  from vf import bmc_models as M, pybmc as B, bmc_replay as R
  sc = dict(data['scenario']); sc.setdefault('depths', (40,))
  sysm, drivers = build(sc)
  enc = B.Encoder(sysm)
  enc._ppset = [set(p) for p in enc.pp]
  trace = data['trace']
  glue = {'mux': M.multiplex_threads, 'prefetch': M.prefetch_threads, 'ownership': M.ownership_threads, 'registry': M.registry_threads}.get(sc.get('kind'), M.queue_threads)
  make, logs, holder = glue(sysm, enc, trace, drivers)
  globals()['_LAST_HOLDER'] = holder
  try:
    rr = R.run_schedule(sysm, enc, trace, make)
  except R.Mismatch as e:
    print('schedule no longer fits the current code:', e)
    print('NOT-REPRODUCED')
    return 0
  print('threads blocked forever:', rr.get('blocked'), 'at', {k: v for k, v in rr.get('where', {}).items() if k in (rr.get('blocked') or [])})
  print('logs:', {k: v.entries for k, v in logs.items()})
  ok, why = predicates(sc, sysm)[1](logs, trace['params'])
  bad = bool(rr.get('blocked')) or not ok
  print('REPRODUCED' if bad else 'NOT-REPRODUCED', why)
  return 1 if bad else 0
