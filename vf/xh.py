"""Engine A: run generated fixed-arity CrossHair contract functions in parallel.

A harness module is Python source text with functions
  ob_<name>(...)  -- obligation: `post: _` must come back "Confirmed over all paths"
  wit_<name>(...) -- vacuity witness: `post: not _`-style claim that MUST be refuted
Every function takes only int/bool arguments, bounded by `pre:` lines.

Symbolic run : VF_SYMBOLIC=1 (harness may install int-kernel numpy stand-ins).
Concrete replay: the same module imported without VF_SYMBOLIC in plain python; a
counterexample is reported only if the obligation really returns falsy / raises.
"""
from __future__ import annotations

import ast
import concurrent.futures as cf
import os
import re
import subprocess
import sys
import time

from . import common

HEADER = '''
import atexit as _atexit, os as _os, sys as _sys
_VF_SYMBOLIC = _os.environ.get('VF_SYMBOLIC') == '1'
_VF_PATHS = {}
def _vf_path(name):
  _VF_PATHS[name] = _VF_PATHS.get(name, 0) + 1
def _vf_exc(name, e):
  # an exception escaping an obligation is a failure (returns False); in a witness it is "no witness" (True)
  if not _VF_SYMBOLIC:
    import traceback as _tb; _tb.print_exc()
  return name.startswith('wit_')
class _VfNoLog:
  """logging / clock stand-in for symbolic runs: formatting and time are not the subject."""
  INFO = WARNING = ERROR = DEBUG = FATAL = 0
  def __getattr__(self, name):
    return lambda *a, **k: None
class _VfClock:
  @staticmethod
  def time(): return 0.0
  @staticmethod
  def sleep(s): return None
def _vf_silence(*modules):
  if _VF_SYMBOLIC:
    for m in modules:
      if hasattr(m, 'logging'): m.logging = _VfNoLog()
      if hasattr(m, 'time') and hasattr(m.time, 'time'): m.time = _VfClock
if _VF_SYMBOLIC:
  _atexit.register(lambda: _sys.stderr.write('VF-PATHS %r\\n' % (_VF_PATHS,)))
'''

_CALL_RE = re.compile(r'when calling (.*?)(?: with crosshair\.patch_to_return\(.*?\))?(?: \(which returns (.*)\))?$')


def fn(name: str, params: str, pre, body: str) -> str:
  """Emits one contract function. `pre` is a string or list of strings; `body` is python
  statements ending in `return <bool>`; exceptions escaping the body count as failure."""
  import textwrap
  pres = [pre] if isinstance(pre, str) else list(pre)
  doc = '\n'.join(f'  pre: {p}' for p in pres)
  body = textwrap.indent(textwrap.dedent(body).strip('\n'), '    ')
  return (f'\ndef {name}({params}) -> bool:\n  """\n{doc}\n  post: _\n  """\n'
          f'  _vf_path({name!r})\n  try:\n{body}\n  except Exception as _e:\n    return _vf_exc({name!r}, _e)\n')


class Result:

  def __init__(self, name, kind):
    self.name, self.kind = name, kind
    self.status = 'inconclusive'  # confirmed | refuted | inconclusive
    self.detail = ''
    self.call = None
    self.paths = 0
    self.cpu = 0.0
    self.reproduced = None


def functions(src: str):
  out = []
  for node in ast.parse(src).body:
    if isinstance(node, ast.FunctionDef) and node.name.startswith(('ob_', 'wit_')):
      out.append((node.name, node.lineno + 1))
  return out


def _run_one(path, name, line, timeout, extra_path):
  env = dict(os.environ)
  env['VF_SYMBOLIC'] = '1'
  env['PYTHONHASHSEED'] = '0'
  env['PYTHONPATH'] = os.pathsep.join([common.REPO, os.path.dirname(path), common.VERIF] + extra_path)
  cmd = [common.VENV_PY, '-m', 'crosshair', 'check', '--report_all',
         '--per_condition_timeout', str(timeout), '--per_path_timeout', str(max(10, timeout ** 0.5)),
         f'{path}:{line}']
  t = time.time()
  try:
    p = subprocess.run(cmd, env=env, capture_output=True, text=True, timeout=timeout * 3 + 120)
    out, err = p.stdout, p.stderr
  except subprocess.TimeoutExpired as e:
    out, err = '', f'wall timeout {e}'
  return name, out, err, time.time() - t


def replay_call(path, call, extra_path=(), timeout=300):
  """Concrete replay in plain python against the real code (real numpy, no tracing).
  Returns (reproduced, text); reproduced is None when the call expression itself cannot be evaluated."""
  code = (
      'import sys, importlib.util, traceback\n'
      f'spec = importlib.util.spec_from_file_location("vf_harness", {path!r})\n'
      'm = importlib.util.module_from_spec(spec); sys.modules["vf_harness"] = m; spec.loader.exec_module(m)\n'
      'try:\n'
      f'  c = compile({call!r}, "<call>", "eval")\n'
      'except SyntaxError as e:\n'
      '  print("VF-REPLAY unparsable", e); sys.exit(0)\n'
      'try:\n'
      '  r = eval(c, vars(m))\n'
      'except Exception as e:\n'
      '  print("VF-REPLAY raised", type(e).__name__, e); traceback.print_exc(); sys.exit(0)\n'
      'print("VF-REPLAY returned", repr(r), "truthy" if r else "falsy")\n')
  env = dict(os.environ)
  env.pop('VF_SYMBOLIC', None)
  env['PYTHONPATH'] = os.pathsep.join([common.REPO, os.path.dirname(path), common.VERIF] + list(extra_path))
  p = subprocess.run([common.VENV_PY, '-c', code], env=env, capture_output=True, text=True, timeout=timeout)
  text = (p.stdout + p.stderr)[-3000:]
  m = re.search(r'VF-REPLAY (raised|returned|unparsable) (.*)', p.stdout)
  if not m or m.group(1) == 'unparsable':
    return None, text
  if m.group(1) == 'raised':
    return True, text
  return m.group(2).endswith('falsy'), text


def run_module(rep: common.Report, src: str, modname: str, timeout: float,
               classify=None, extra_path=(), only=None, jobs=None):
  """Writes the harness, checks every ob_/wit_ function, records results in `rep`."""
  os.makedirs(common.WORK, exist_ok=True)
  path = os.path.join(common.WORK, f'{modname}.py')
  src = HEADER + src
  with open(path, 'w') as f:
    f.write(src)
  fns = [(n, l) for n, l in functions(src) if only is None or only(n)]
  results = {n: Result(n, 'wit' if n.startswith('wit_') else 'ob') for n, _ in fns}
  t0 = time.time()
  with cf.ThreadPoolExecutor(jobs or common.NCPU) as ex:
    futs = [ex.submit(_run_one, path, n, l, timeout, list(extra_path)) for n, l in fns]
    for fu in cf.as_completed(futs):
      name, out, err, secs = fu.result()
      r = results[name]
      r.cpu = secs
      m = re.search(r'VF-PATHS (\{.*\})', err)
      if m:
        try:
          r.paths = sum(eval(m.group(1)).values())  # pylint: disable=eval-used
        except Exception:  # pylint: disable=broad-exception-caught
          pass
      lines = [l for l in out.splitlines() if re.search(r': (info|error): ', l)]
      if not lines:
        r.detail = ('no verdict: ' + (err.strip().splitlines() or ['?'])[-1])[:300]
        continue
      msgs = [l.split(': ', 2)[1:] for l in lines]
      if all(k == 'info' and 'Confirmed over all paths' in t for k, t in msgs):
        r.status = 'confirmed'
      elif any(k == 'error' for k, t in msgs):
        k, t = next(x for x in msgs if x[0] == 'error')
        cm = _CALL_RE.search(t)
        r.detail = t[:400]
        if cm:
          r.status, r.call = 'refuted', cm.group(1)
        else:
          r.detail = 'unparsed counterexample: ' + r.detail
      else:
        r.detail = '; '.join(t for _, t in msgs)[:300]
  # ---- interpret -------------------------------------------------------------
  table = rep.cov.setdefault('obligation_table', [])
  for name, r in sorted(results.items()):
    table.append({'name': f'{modname}.{name}', 'status': r.status, 'paths': r.paths, 'cpu_s': round(r.cpu, 1)})
    rep.cov['evaluations'] += max(r.paths, 1)
    rep.solver('unsat' if r.status == 'confirmed' else ('sat' if r.status == 'refuted' else 'unknown'), r.cpu, 1)
    if r.kind == 'wit':
      rep.witness(r.status == 'refuted', f'{modname}.{name}', r.detail or r.status)
      continue
    if r.status == 'confirmed':
      rep.obligation(True, f'{modname}.{name}')
      if r.paths > 1:
        rep.cov['distinct_nontrivial'] += 1
      rep.sample({'obligation': f'{modname}.{name}', 'verdict': 'Confirmed over all paths', 'paths': r.paths,
                  'cpu_s': round(r.cpu, 1)})
    elif r.status == 'refuted':
      ok, text = replay_call(path, r.call, extra_path)
      r.reproduced = ok
      if ok:
        sig = classify(name, r.call) if classify else name
        rep.violation(sig, f'{modname}.{name}: {r.detail}', {
            'engine': 'xh', 'module': modname, 'function': name, 'call': r.call,
            'harness_source': src, 'replay_output': text[-1500:]})
      else:
        rep.obligation(None, f'{modname}.{name}',
                       f'HARNESS-ERROR counterexample {r.call} did not reproduce concretely: {text[-200:]}')
    else:
      rep.obligation(None, f'{modname}.{name}', r.detail or 'not confirmed')
  rep.cov.setdefault('engine_wall_s', 0)
  rep.cov['engine_wall_s'] = round(rep.cov['engine_wall_s'] + time.time() - t0, 1)
  return results


def replay_file(data: dict) -> int:
  """`run.py <ID> --replay file` for an engine-A counterexample."""
  os.makedirs(common.WORK, exist_ok=True)
  path = os.path.join(common.WORK, f'replay_{data["module"]}.py')
  with open(path, 'w') as f:
    f.write(data['harness_source'])
  ok, text = replay_call(path, data['call'])
  print(text)
  print('REPRODUCED' if ok else 'NOT-REPRODUCED')
  return 1 if ok else 0
