"""Job runner for engine-S checks: one process per (scenario, shape) job; aggregates into a Report."""
from __future__ import annotations

import multiprocessing as mp
import os
import time
import traceback

from . import common, symx


class ConstCtx(symx.Ctx):
  """Context whose inputs are constants: used to validate the facade against real numpy (translator validation)
  and to replay counterexamples through the very same scenario code."""

  def __init__(self, values, symbolic_consts=True, rng=None):
    super().__init__()
    self.values = values
    self.symbolic_consts = symbolic_consts
    self.concrete = not symbolic_consts
    self.rng = rng

  def _draw(self, name, kind, lo, hi, nan):
    if name in self.values or self.rng is None:
      return
    r = self.rng
    if kind == 'int':
      self.values[name] = r.randint(lo, hi)
    elif kind == 'bool':
      self.values[name] = r.random() < 0.5
    else:
      a = -4.0 if lo is None else float(lo)
      b = (a + 8.0) if hi is None else float(hi)
      self.values[name] = round(r.uniform(a, b), 3) if r.random() < 0.7 else float(r.randint(int(a), int(b)))
      if nan:
        self.values[name + '__nan'] = r.random() < 0.3

  def real(self, name, nan=False, lo=None, hi=None):
    self._draw(name, 'real', lo, hi, nan)
    v = self.values[name]
    isnan = bool(self.values.get(name + '__nan', False)) if nan else False
    if not self.symbolic_consts:
      return float('nan') if isnan else float(v)
    import z3
    if isnan:
      return symx.SV(z3.RealVal(0), z3.BoolVal(True))
    return symx.SV(symx._num(v))

  def int(self, name, lo, hi):
    self._draw(name, 'int', lo, hi, False)
    v = int(self.values[name])
    if not self.symbolic_consts:
      return v
    import z3
    return symx.SV(z3.IntVal(v), isint=True, dom=(lo, hi))

  def nat(self, name):
    self._draw(name, 'int', 0, 6, False)
    v = int(self.values[name])
    if not self.symbolic_consts:
      return v
    import z3
    return symx.SV(z3.IntVal(v), isint=True)

  def assume(self, cond):
    if self.symbolic_consts:
      super().assume(cond)

  def bool(self, name):
    self._draw(name, 'bool', None, None, False)
    v = bool(self.values[name])
    return symx.SBool(v) if self.symbolic_consts else v


def run_concrete(build, values):
  """Runs scenario `build(ctx)` on plain python floats with the real numpy. build returns a dict of named results."""
  c = ConstCtx(values, symbolic_consts=False)
  old, symx.Ctx.cur = symx.Ctx.cur, c
  try:
    return build(c)
  finally:
    symx.Ctx.cur = old


def run_const_symbolic(build, values, modules, rng=None):
  """Runs the scenario through the facade with constant proxies; returns results converted to floats."""
  c = ConstCtx(values, symbolic_consts=True, rng=rng)
  old, symx.Ctx.cur = symx.Ctx.cur, c
  try:
    c.begin_path([])
    with symx.patched(*modules):
      out = build(c)
    return to_float(out, c)
  finally:
    symx.Ctx.cur = old


def to_float(x, c=None):
  import numpy as np
  import z3
  import dataclasses
  if isinstance(x, symx.SV):
    if z3.is_true(z3.simplify(x.nan)):
      return float('nan')
    v = z3.simplify(x.val)
    if z3.is_rational_value(v) or z3.is_int_value(v):
      return float(v.as_fraction()) if not z3.is_int_value(v) else float(v.as_long())
    if z3.is_algebraic_value(v):
      return float(v.approx(12).as_fraction())
    # uninterpreted sqrt/log terms: ask the solver for a model value under the asserted axioms
    if c is not None and c.check(want_model=True) == z3.sat:
      mv = c.last_model.eval(x.val, model_completion=True)
      if z3.is_algebraic_value(mv):
        return float(mv.approx(12).as_fraction())
      if z3.is_rational_value(mv):
        return float(mv.as_fraction())
    raise ValueError(f'not a constant: {v}')
  if isinstance(x, symx.SBool):
    v = z3.simplify(x.t)
    return bool(z3.is_true(v))
  if isinstance(x, np.ndarray):
    if x.dtype == object:
      out = np.empty(x.shape, dtype=float)
      for i in np.ndindex(*x.shape):
        out[i] = to_float(x[i], c)
      return out
    return x
  if isinstance(x, dict):
    return {(to_float(k, c) if isinstance(k, (symx.SV, symx.SBool)) else k): to_float(v, c) for k, v in x.items()}
  if isinstance(x, (list, tuple)):
    t = [to_float(v, c) for v in x]
    if type(x) in (list, tuple):
      return type(x)(t)
    try:
      return type(x)(*t)
    except TypeError:
      return tuple(t)
  if dataclasses.is_dataclass(x) and not isinstance(x, type):
    return {f.name: to_float(getattr(x, f.name), c) for f in dataclasses.fields(x) if f.compare}
  return x


def _worker(args):
  fn, job = args
  t = time.time()
  try:
    out = fn(job)
  except BaseException as e:  # pylint: disable=broad-exception-caught
    out = {'job': job, 'error': f'{type(e).__name__}: {e}', 'trace': traceback.format_exc()[-1500:]}
  out['wall'] = round(time.time() - t, 2)
  return out


def run_jobs(fn, jobs, nproc=None):
  """fn(job) -> dict; executed in forked worker processes."""
  nproc = nproc or common.NCPU
  if os.environ.get('VF_SERIAL'):
    return [_worker((fn, j)) for j in jobs]
  ctx = mp.get_context('fork')
  with ctx.Pool(nproc, maxtasksperchild=20) as pool:
    return list(pool.imap_unordered(_worker, [(fn, j) for j in jobs], chunksize=1))


def absorb(rep: common.Report, results, classify=None):
  """Folds worker results into the report. Each result: dict(job, paths, cut, claims, discharged, failed=[...],
  unknown=[...], stats, tv_ok, samples)."""
  cut_total, cut_reasons = 0, {}
  seen_sig = {}
  timing = rep.cov.setdefault('job_wall_s_by_scenario', {})
  for r in results:
    key0 = str((r.get('job') or ['?'])[0]) if isinstance(r.get('job'), (list, tuple)) else str(r.get('job'))
    timing[key0] = round(timing.get(key0, 0) + r.get('wall', 0), 1)
    name = str(r.get('job'))
    if 'error' in r:
      rep.obligation(None, name, 'worker error: ' + r['error'])
      continue
    rep.cov['evaluations'] += r.get('paths', 0)
    if r.get('paths', 0) > 1:
      rep.cov['distinct_nontrivial'] += 1
    st = r.get('stats') or {}
    s = rep.cov['solver']
    for k in ('queries', 'sat', 'unsat', 'unknown'):
      s[k] += st.get(k, 0)
    s['time_s'] = round(s['time_s'] + st.get('time', 0.0), 3)
    cut_total += r.get('cut', 0)
    for k, v in (r.get('cut_reasons') or {}).items():
      cut_reasons[k] = cut_reasons.get(k, 0) + v
    # every claim proven on a path is one discharged obligation
    rep.cov['obligations'] += r.get('discharged', 0)
    rep.cov['discharged'] += r.get('discharged', 0)
    for u in r.get('unknown', []):
      rep.obligation(None, name, u)
    for f in r.get('failed', []):
      if f.get('reproduced'):
        sig = classify(r, f) if classify else f"{name}:{f['claim']}"
        seen_sig[sig] = seen_sig.get(sig, 0) + 1
        if seen_sig[sig] > 1:      # same signature again: counted, not re-reported
          continue
        rep.violation(sig, f"{name}: claim {f['claim']} fails for {f['values']} -> {f.get('detail', '')}"[:900],
                      {'engine': 'symx', 'tier': rep.tier, 'job': r.get('job'), 'claim': f['claim'], 'values': f['values'], 'detail': f.get('detail')})
      else:
        rep.obligation(None, name, f"HARNESS-ERROR model for {f['claim']} did not reproduce concretely: {f['values']} {f.get('detail', '')}"[:400])
    if 'tv' in r:
      tv = rep.cov.setdefault('translator_validation', {'runs': 0, 'agree': 0})
      tv['runs'] += r['tv'].get('runs', 0)
      tv['agree'] += r['tv'].get('agree', 0)
      for d in r['tv'].get('disagreements', []):
        rep.obligation(None, name, 'facade/real-numpy disagreement on constants: ' + str(d)[:300])
    if r.get('witness') is not None:
      rep.witness(bool(r['witness']), name, 'no path reached the claim')
    for smp in r.get('samples', []):
      rep.sample(smp)
  rep.cov['violation_counts_by_signature'] = seen_sig
  rep.cov['paths_cut_outside_model'] = rep.cov.get('paths_cut_outside_model', 0) + cut_total
  rep.cov.setdefault('cut_reasons', {}).update(cut_reasons)
