"""Scenario builders for engine B: modelled object instances + thread drivers for the real iter_utils code."""
from __future__ import annotations

import os

from . import common
from . import pybmc as B
from . import pybmc_front as F

ITER_UTILS = 'ml_metrics/_src/utils/iter_utils.py'


def sources():
  path = os.path.join(common.REPO, ITER_UTILS)
  return F.load_sources([path], {'IteratorQueue', 'IterableQueue', 'DequeueIterator', '_ThreadSafeIterator', 'MultiplexIterator'},
                        {'_release_and_notify', 'is_stop_iteration'})


def queue_spec(name, sysm, max_enqueuer, qcap, qmax, timeout='TO', ignore_error=0, max_batch_size=4):
  """One IteratorQueue instance. max_enqueuer / qcap / ignore_error may be parameter names."""
  prog = F.ObjSpec(name + '_progress', 'Progress', {'cnt': ('int', 0)})
  spec = F.ObjSpec(name, 'IteratorQueue', {
      '_exhausted': ('bool', 0), '_exception': ('exc', 0), '_enqueue_start': ('int', 0), '_enqueue_stop': ('int', 0),
      '_max_enqueuer': ('int', max_enqueuer), '_returned': ('retset', 0),
  }, prims={
      '_dequeue_lock': ('cond', name + '.D', name + '.D'), '_enqueue_lock': ('cond', name + '.E', name + '.E'),
      '_states_lock': ('rlock', name + '.S'), '_queue': ('queue', name + '.Q'),
  }, consts={
      '_progress': '@obj:' + name + '_progress', 'name': 'q', '_max_batch_size': max_batch_size,
      'timeout': F.Val('int', e=('param', timeout)) if isinstance(timeout, str) else None,
      'ignore_error': F.Val('bool', e=('param', ignore_error)) if isinstance(ignore_error, str) else bool(ignore_error),
  })
  sysm.objects[name] = spec
  sysm.objects[name + '_progress'] = prog
  for l in ('.D', '.E', '.S'):
    sysm.locks[name + l] = 'rlock'
  sysm.conds[name + '.D'] = name + '.D'
  sysm.conds[name + '.E'] = name + '.E'
  sysm.queues[name + '.Q'] = {'cap': qcap, 'max': qmax}
  sysm.timeout = timeout if isinstance(timeout, str) else 0
  return spec


PRODUCER = '''
def producer():
  q.enqueue_from_iterator({src})
'''

CONSUMER_GET = '''
def consumer():
  while True:
    try:
      v = q.get()
    except StopIteration as e:
      {log}.stop(e)
      return
    except Exception as e:
      {log}.err(e)
      return
    {log}.item(v)
'''

CONSUMER_BATCH = '''
def consumer():
  while True:
    try:
      vs = q.get_batch({bs}, block={block})
    except StopIteration as e:
      {log}.stop(e)
      return
    except Exception as e:
      {log}.err(e)
      return
    {log}.item(vs)
'''

STOPPER = '''
def stopper():
  q.maybe_stop({exc})
'''


def build_queue_system(nprod, items, ncons, consumer='get', qcap='CAP', caps=(0, 2), fail=None, stopper=None, timeout='TO',
                       timeouts=(0, 0), batch=('BS', (0, 3)), block=('BLK', (0, 1)), max_enqueuer=None, ignore_error=0):
  """nprod producers (each `items` elements, items may be a tuple per producer), ncons consumers."""
  sysm = B.System()
  src = sources()
  if isinstance(items, int):
    items = (items,) * nprod
  total = sum(items)
  if isinstance(qcap, str):
    sysm.params[qcap] = caps
  if isinstance(timeout, str):
    sysm.params[timeout] = timeouts
  queue_spec('q', sysm, nprod if max_enqueuer is None else max_enqueuer, qcap, max(total, 1), timeout, ignore_error)
  iters, logs = {}, {}
  for p in range(nprod):
    d = {'n': items[p], 'base': 16 * p + 1, 'ret': 1 << p, 'fail': None}
    if fail and p in fail:
      sysm.params[f'FAIL{p}'] = fail[p]      # position at which next() raises; 255 = never
      d['fail'] = f'FAIL{p}'
    sysm.iters[f'SRC{p}'] = d
    iters[f'SRC{p}'] = f'SRC{p}'
  for c in range(ncons):
    sysm.logs[f'LOG{c}'] = total + 2
    logs[f'LOG{c}'] = total + 2
  globs = {}
  if consumer == 'batch':
    sysm.params[batch[0]] = batch[1]
    sysm.params[block[0]] = block[1]
    globs[batch[0]] = F.Val('int', e=('param', batch[0]))
    globs[block[0]] = F.Val('bool', e=('param', block[0]))
  comp = F.Compiler(src, sysm.objects, iters, logs, globs)
  for p in range(nprod):
    sysm.threads.append(comp.compile_thread(f'producer{p}', PRODUCER.format(src=f'SRC{p}')))
  for c in range(ncons):
    tmpl = CONSUMER_GET if consumer == 'get' else CONSUMER_BATCH
    sysm.threads.append(comp.compile_thread(f'consumer{c}', tmpl.format(log=f'LOG{c}', bs=batch[0], block=block[0])))
  if stopper is not None:
    exc = {'stop': 'None', 'error': 'UserError(9)'}[stopper]
    sysm.threads.append(comp.compile_thread('stopper', STOPPER.format(exc=exc)))
  sysm.meta = {'nprod': nprod, 'items': items, 'ncons': ncons, 'encoded_lines': sorted(comp.encoded_lines), 'dropped_lines': sorted(comp.dropped_lines)}
  return sysm


def c04_ok(enc, sysm, st):
  """Final-state predicate of C04 (no faults): every produced element received exactly once, per producer in order
  within each consumer, every consumer ends with StopIteration carrying all producers' return values."""
  import z3
  m = sysm.meta
  nprod, items, ncons = m['nprod'], m['items'], m['ncons']
  conj = []
  logs = [f'LOG{c}' for c in range(ncons)]
  def entries(lg):
    cap = sysm.logs[lg]
    return [(j, st[('log', lg, j, 'tag')], st[('log', lg, j, 'kind')], st[('log', lg, j, 'val')]) for j in range(cap)]
  for p in range(nprod):
    for i in range(items[p]):
      v = 16 * p + 1 + i
      cnt = z3.Sum([z3.If(z3.And(z3.ULT(B.BV(j), st[('loglen', lg)]), tag == 0, val == v), 1, 0) for lg in logs for j, tag, kind, val in entries(lg)])
      conj.append(cnt == 1)
  total = sum(items)
  conj.append(z3.Sum([z3.ZeroExt(8, st[('loglen', lg)]) for lg in logs]) == total + ncons)
  full = sum(1 << p for p in range(nprod)) + 16 * nprod
  for lg in logs:
    ln = st[('loglen', lg)]
    es = entries(lg)
    conj.append(z3.UGE(ln, 1))
    for j, tag, kind, val in es:
      last = ln == j + 1
      conj.append(z3.Implies(last, z3.And(tag == 1, kind == F.K_STOP, val == full)))
      conj.append(z3.Implies(z3.ULT(B.BV(j + 1), ln), tag == 0))
    # production order per producer inside one consumer
    for a in range(len(es)):
      for b in range(a + 1, len(es)):
        ja, ta, ka, va = es[a]; jb, tb, kb, vb = es[b]
        same_prod = z3.LShR(va - 1, 4) == z3.LShR(vb - 1, 4)
        conj.append(z3.Implies(z3.And(z3.ULT(B.BV(jb), ln), ta == 0, tb == 0, same_prod), z3.ULT(va, vb)))
  for tid in range(len(sysm.threads)):
    conj.append(st[('died', tid)] == 0)
  return z3.And(*conj)
