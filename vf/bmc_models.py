"""Scenario builders for engine B: modelled object instances + thread drivers for the real iter_utils code."""
from __future__ import annotations

import os

from . import common
from . import pybmc as B
from . import pybmc_front as F

ITER_UTILS = 'ml_metrics/_src/utils/iter_utils.py'


def sources():
  path = os.path.join(common.REPO, ITER_UTILS)
  return F.load_sources([path], {'IteratorQueue', 'IterableQueue', 'DequeueIterator', '_ThreadSafeIterator', 'MultiplexIterator'},
                        {'_release_and_notify', 'is_stop_iteration'})


def auto_fields(spec, cls_src):
  """Fields that __init__ initialises with a bool/int constant and that the spec does not know yet (so that a source
  change which adds a simple flag or counter is still encodable)."""
  import ast
  init = cls_src.get('__init__')
  if init is None:
    return
  for node in ast.walk(init):
    if isinstance(node, ast.Assign) and len(node.targets) == 1 and isinstance(node.targets[0], ast.Attribute) and \
        isinstance(node.targets[0].value, ast.Name) and node.targets[0].value.id == 'self' and isinstance(node.value, ast.Constant):
      f, v = node.targets[0].attr, node.value.value
      if f in spec.fields or f in spec.prims or f in spec.consts:
        continue
      if isinstance(v, bool):
        spec.fields[f] = ('bool', int(v))
      elif isinstance(v, int):
        spec.fields[f] = ('int', v)


def queue_spec(name, sysm, max_enqueuer, qcap, qmax, timeout='TO', ignore_error=0, max_batch_size=4):
  """One IteratorQueue instance. max_enqueuer / qcap / ignore_error may be parameter names."""
  prog = F.ObjSpec(name + '_progress', 'Progress', {'cnt': ('int', 0)})
  spec = F.ObjSpec(name, 'IteratorQueue', {
      '_exhausted': ('bool', 0), '_exception': ('exc', 0), '_enqueue_start': ('int', 0), '_enqueue_stop': ('int', 0),
      '_max_enqueuer': ('int', max_enqueuer), '_returned': ('retset', 0),
  }, prims={
      '_dequeue_lock': ('cond', name + '.D', name + '.D'), '_enqueue_lock': ('cond', name + '.E', name + '.E'),
      '_states_lock': ('rlock', name + '.S'), '_queue': ('queue', name + '.Q'),
  }, consts={
      '_progress': '@obj:' + name + '_progress', 'name': 'q', '_max_batch_size': max_batch_size,
      'timeout': F.Val('int', e=('param', timeout)) if isinstance(timeout, str) else None,
      'ignore_error': F.Val('bool', e=('param', ignore_error)) if isinstance(ignore_error, str) else bool(ignore_error),
  })
  auto_fields(spec, sources().get('IteratorQueue', {}))
  sysm.objects[name] = spec
  sysm.objects[name + '_progress'] = prog
  for l in ('.D', '.E', '.S'):
    sysm.locks[name + l] = 'rlock'
  sysm.conds[name + '.D'] = name + '.D'
  sysm.conds[name + '.E'] = name + '.E'
  sysm.queues[name + '.Q'] = {'cap': qcap, 'max': qmax}
  sysm.timeout = timeout if isinstance(timeout, str) else 0
  return spec


PRODUCER = '''
def producer():
  q.enqueue_from_iterator({src})
'''

CONSUMER_GET = '''
def consumer():
  while True:
    try:
      v = q.get()
    except StopIteration as e:
      {log}.stop(e)
      return
    except Exception as e:
      {log}.err(e)
      return
    {log}.item(v)
'''

CONSUMER_BATCH = '''
def consumer():
  while True:
    try:
      vs = q.get_batch({bs}, block={block})
    except StopIteration as e:
      {log}.stop(e)
      return
    except Exception as e:
      {log}.err(e)
      return
    {log}.item(vs)
'''

CONSUMER_GET_STOP_GET = '''
def consumer():
  # what MultiplexIterator.__next__ does on an error: stop the queue, re-raise; a later read must still see the error
  while True:
    try:
      v = q.get()
    except StopIteration as e:
      {log}.stop(e)
      return
    except Exception as e:
      q.maybe_stop()
      try:
        v2 = q.get()
      except StopIteration as e2:
        {log}.stop(e2)
        return
      except Exception as e2:
        {log}.err(e2)
        return
      {log}.item(v2)
      return
    {log}.item(v)
'''

STOPPER = '''
def stopper():
  q.maybe_stop({exc})
'''


def build_queue_system(nprod, items, ncons, consumer='get', qcap='CAP', caps=(0, 2), fail=None, stopper=None, timeout='TO',
                       timeouts=(0, 0), batch=('BS', (0, 3)), block=('BLK', (0, 1)), max_enqueuer=None, ignore_error=0):
  """nprod producers (each `items` elements, items may be a tuple per producer), ncons consumers."""
  sysm = B.System()
  src = sources()
  if isinstance(items, int):
    items = (items,) * nprod
  total = sum(items)
  if isinstance(qcap, str):
    sysm.params[qcap] = caps
  if isinstance(timeout, str):
    sysm.params[timeout] = timeouts
  queue_spec('q', sysm, nprod if max_enqueuer is None else max_enqueuer, qcap, max(total, 1), timeout, ignore_error)
  iters, logs = {}, {}
  for p in range(nprod):
    d = {'n': items[p], 'base': 16 * p + 1, 'ret': 1 << p, 'fail': None}
    if fail and p in fail:
      sysm.params[f'FAIL{p}'] = fail[p]      # position at which next() raises; 255 = never
      d['fail'] = f'FAIL{p}'
    sysm.iters[f'SRC{p}'] = d
    iters[f'SRC{p}'] = f'SRC{p}'
  for c in range(ncons):
    sysm.logs[f'LOG{c}'] = total + 2
    logs[f'LOG{c}'] = total + 2
  globs = {}
  if consumer == 'batch':
    for (nm, rng), ty in ((batch, 'int'), (block, 'bool')):
      if rng[0] == rng[1]:
        globs[nm] = F.Val(ty, e=F.C(rng[0]))          # constant configuration
      else:
        sysm.params[nm] = rng
        globs[nm] = F.Val(ty, e=('param', nm))
    sysm.consts = {batch[0]: batch[1][0] if batch[1][0] == batch[1][1] else None, block[0]: block[1][0] if block[1][0] == block[1][1] else None}
  comp = F.Compiler(src, sysm.objects, iters, logs, globs)
  for p in range(nprod):
    sysm.threads.append(comp.compile_thread(f'producer{p}', PRODUCER.format(src=f'SRC{p}')))
  for c in range(ncons):
    tmpl = {'get': CONSUMER_GET, 'batch': CONSUMER_BATCH, 'get-stop-get': CONSUMER_GET_STOP_GET}[consumer]
    sysm.threads.append(comp.compile_thread(f'consumer{c}', tmpl.format(log=f'LOG{c}', bs=batch[0], block=block[0])))
  if stopper is not None:
    exc = {'stop': 'None', 'error': 'UserError(9)'}[stopper]
    sysm.threads.append(comp.compile_thread('stopper', STOPPER.format(exc=exc)))
  sysm.meta = {'nprod': nprod, 'items': items, 'ncons': ncons, 'encoded_lines': sorted(comp.encoded_lines), 'dropped_lines': sorted(comp.dropped_lines)}
  return sysm


def bvsum(conds):
  """Number of true conditions as an 8-bit vector (pure QF_BV: no Int-sorted terms may reach the BV solver)."""
  import z3
  r = B.BV(0)
  for c in conds:
    r = r + z3.If(c, B.BV(1), B.BV(0))
  return r


def c04_ok(enc, sysm, st):
  """Final-state predicate of C04 (no faults): every produced element received exactly once, per producer in order
  within each consumer, every consumer ends with StopIteration carrying all producers' return values."""
  import z3
  m = sysm.meta
  nprod, items, ncons = m['nprod'], m['items'], m['ncons']
  conj = []
  logs = [f'LOG{c}' for c in range(ncons)]
  def entries(lg):
    cap = sysm.logs[lg]
    return [(j, st[('log', lg, j, 'tag')], st[('log', lg, j, 'kind')], st[('log', lg, j, 'val')]) for j in range(cap)]
  for p in range(nprod):
    for i in range(items[p]):
      v = 16 * p + 1 + i
      cnt = bvsum([z3.And(z3.ULT(B.BV(j), st[('loglen', lg)]), tag == 0, val == v) for lg in logs for j, tag, kind, val in entries(lg)])
      conj.append(cnt == 1)
  total = sum(items)
  tot16 = z3.BitVecVal(0, 16)
  for lg in logs:
    tot16 = tot16 + z3.ZeroExt(8, st[('loglen', lg)])
  conj.append(tot16 == z3.BitVecVal(total + ncons, 16))
  full = sum(1 << p for p in range(nprod)) + 16 * nprod
  for lg in logs:
    ln = st[('loglen', lg)]
    es = entries(lg)
    conj.append(z3.UGE(ln, 1))
    for j, tag, kind, val in es:
      last = ln == j + 1
      conj.append(z3.Implies(last, z3.And(tag == 1, kind == F.K_STOP, val == full)))
      conj.append(z3.Implies(z3.ULT(B.BV(j + 1), ln), tag == 0))
    # production order per producer inside one consumer (C04 states it: always required here)
    for a in range(len(es)):
      for b in range(a + 1, len(es)):
        ja, ta, ka, va = es[a]; jb, tb, kb, vb = es[b]
        same_prod = z3.LShR(va - 1, 4) == z3.LShR(vb - 1, 4)
        conj.append(z3.Implies(z3.And(z3.ULT(B.BV(jb), ln), ta == 0, tb == 0, same_prod), z3.ULT(va, vb)))
  for tid in range(len(sysm.threads)):
    conj.append(st[('died', tid)] == 0)
  return z3.And(*conj)


# ------------------------------------------------------------------------------------------------
# replay glue: the same scenario on the real classes with controlled primitives
# ------------------------------------------------------------------------------------------------
class PyLog:
  """Python-side twin of the model log: entries (tag, kind, val)."""

  def __init__(self):
    self.entries = []

  def item(self, v):
    for x in (v if isinstance(v, list) else [v]):
      self.entries.append((0, 0, int(x)))

  def stop(self, e):
    mask = 0
    for a in e.args:
      mask |= int(a)
    self.entries.append((1, F.K_STOP, (mask + 16 * len(e.args)) & 0xFF))

  def err(self, e):
    kind = {'TimeoutError': F.K_TIMEOUT, 'ValueError': F.K_USER, 'RuntimeError': F.K_RUNTIME, 'AssertionError': F.K_ASSERT,
            'StopIteration': F.K_STOP, 'Empty': F.K_EMPTY, 'Full': F.K_FULL}.get(type(e).__name__, F.K_USER)
    val = 0
    if kind == F.K_USER and e.args and isinstance(e.args[0], int):
      val = e.args[0]
    self.entries.append((2, kind, val))
    self.last_error = repr(e)
    import traceback, os
    if os.environ.get('VF_DEBUG_REPLAY'):
      traceback.print_exception(e)


class UserError(ValueError):
  pass


def real_queue(sched, enc, name, cap, max_enqueuer, timeout, ignore_error=False):
  """A real IteratorQueue whose primitives and racy fields are controlled by `sched`."""
  from ml_metrics._src.utils import iter_utils
  from . import bmc_replay as R
  from absl import logging as _absl_logging
  _absl_logging.set_verbosity(_absl_logging.FATAL)
  q = iter_utils.IteratorQueue(cap, max_enqueuer=max_enqueuer, timeout=timeout, ignore_error=ignore_error)
  racy = sorted({r[2] for r in enc.racy if r[0] == 'g' and r[1] == name})
  cls = type('IteratorQueueUnderReplay', (iter_utils.IteratorQueue,), {f: R.RacyField(sched, name, f) for f in racy})
  for f in racy:
    q.__dict__['_vf_' + f] = q.__dict__.pop(f)
  q.__class__ = cls
  q._dequeue_lock = R.CtlCondition(sched, name + '.D')
  q._enqueue_lock = R.CtlCondition(sched, name + '.E')
  q._states_lock = R.CtlRLock(sched, name + '.S')
  q._queue = R.CtlQueue(sched, name + '.Q', cap)
  return q


def queue_threads(sysm, enc, trace, drivers):
  """Returns make_threads(sched) for bmc_replay.run_schedule plus the dict of python logs it fills."""
  from . import bmc_replay as R
  m = sysm.meta
  P = trace['params']
  logs = {f'LOG{c}': PyLog() for c in range(m['ncons'])}
  holder = {}

  def make(sched):
    capd = sysm.queues['q.Q']['cap']
    cap = P[capd] if isinstance(capd, str) else capd
    to = sysm.timeout
    timeout = (1.0 if (P[to] if isinstance(to, str) else to) else None)
    q = real_queue(sched, enc, 'q', cap, sysm.objects['q'].fields['_max_enqueuer'][1], timeout)
    holder['q'] = q
    env = {'q': q, 'UserError': UserError}
    env.update(logs)
    for p in range(m['nprod']):
      d = sysm.iters[f'SRC{p}']
      fail = P.get(d['fail']) if d.get('fail') else None
      env[f'SRC{p}'] = R.ModelIter(sched, f'SRC{p}', d['n'], d['base'], d['ret'], None if fail in (None, 255) else fail)
    for k, v in P.items():
      env.setdefault(k, v)
    for k, v in (getattr(sysm, 'consts', None) or {}).items():
      if v is not None:
        env.setdefault(k, v)
    fns = {}
    for name, src in drivers.items():
      ns = dict(env)
      exec(src, ns)                     # the very driver source the model was compiled from
      fn = [v for k, v in ns.items() if callable(v) and getattr(v, '__code__', None) is not None and v.__code__.co_filename == '<string>'][-1]
      fns[name] = fn
    return fns
  return make, logs, holder


def c04_ok_py(meta, logs):
  """Python twin of c04_ok on real logs."""
  nprod, items, ncons = meta['nprod'], meta['items'], meta['ncons']
  allitems = [e[2] for lg in logs.values() for e in lg.entries if e[0] == 0]
  want = sorted(16 * p + 1 + i for p in range(nprod) for i in range(items[p]))
  if sorted(allitems) != want:
    return False, f'items received {sorted(allitems)} != produced {want}'
  full = sum(1 << p for p in range(nprod)) + 16 * nprod
  for name, lg in logs.items():
    if not lg.entries or lg.entries[-1][:2] != (1, F.K_STOP) or lg.entries[-1][2] != full:
      return False, f'{name} does not end with StopIteration carrying all return values: {lg.entries}'
    if any(e[0] != 0 for e in lg.entries[:-1]):
      return False, f'{name} has a terminal event before the end: {lg.entries}'
    for p in range(nprod):
      seq = [e[2] for e in lg.entries if e[0] == 0 and (e[2] - 1) // 16 == p]
      if seq != sorted(seq):
        return False, f'{name} received elements of producer {p} out of order: {seq}'
  return True, ''


def items_sane(enc, sysm, st, conj, ordered=True):
  """No element twice, per-producer order inside each consumer (ordered=True), only elements that were really produced."""
  import z3
  m = sysm.meta
  logs = [f'LOG{c}' for c in range(m['ncons'])]
  ents = {lg: [(j, st[('log', lg, j, 'tag')], st[('log', lg, j, 'kind')], st[('log', lg, j, 'val')]) for j in range(sysm.logs[lg])] for lg in logs}
  for p in range(m['nprod']):
    for i in range(m['items'][p]):
      v = 16 * p + 1 + i
      cnt = bvsum([z3.And(z3.ULT(B.BV(j), st[('loglen', lg)]), tag == 0, val == v) for lg in logs for j, tag, kind, val in ents[lg]])
      conj.append(z3.ULE(cnt, B.BV(1)))
  valid = [16 * p + 1 + i for p in range(m['nprod']) for i in range(m['items'][p])]
  for lg in logs:
    ln = st[('loglen', lg)]
    es = ents[lg]
    for j, tag, kind, val in es:
      conj.append(z3.Implies(z3.And(z3.ULT(B.BV(j), ln), tag == 0), z3.Or(*[val == v for v in valid]) if valid else z3.BoolVal(False)))
      conj.append(z3.Implies(z3.ULT(B.BV(j + 1), ln), tag == 0))         # a terminal event is the last entry
    for a in range(len(es) if ordered else 0):
      for b in range(a + 1, len(es)):
        ja, ta, ka, va = es[a]; jb, tb, kb, vb = es[b]
        conj.append(z3.Implies(z3.And(z3.ULT(B.BV(jb), ln), ta == 0, tb == 0, z3.LShR(va - 1, 4) == z3.LShR(vb - 1, 4)), z3.ULT(va, vb)))
  return ents


def c05_ok(enc, sysm, st, mode):
  """Final-state predicate of C05. mode: 'fail' (producer p0 may fail at FAIL0), 'stop' (clean stop request),
  'stop-error' (stop request with an exception), 'timeout' (timeouts configured, nobody ever feeds/drains)."""
  import z3
  m = sysm.meta
  conj = []
  ents = items_sane(enc, sysm, st, conj)
  for lg, es in ents.items():
    ln = st[('loglen', lg)]
    conj.append(z3.UGE(ln, 1))
    for j, tag, kind, val in es:
      last = ln == j + 1
      if mode == 'fail':
        fails = z3.Or(*[z3.ULE(enc.P[f'FAIL{p}'], B.BV(m['items'][p])) for p in range(m['nprod']) if f'FAIL{p}' in enc.P])
        full = sum(1 << p for p in range(m['nprod'])) + 16 * m['nprod']
        conj.append(z3.Implies(z3.And(last, fails), z3.And(tag == 2, kind == F.K_USER)))          # the producer's exception, never a clean end
        conj.append(z3.Implies(z3.And(last, z3.Not(fails)), z3.And(tag == 1, kind == F.K_STOP, val == full)))
        for p in range(m['nprod']):
          if f'FAIL{p}' in enc.P:   # nothing produced after the failure point can exist
            conj.append(z3.Implies(z3.And(z3.ULT(B.BV(j), ln), tag == 0, z3.LShR(val - 1, 4) == p), z3.ULT(val - (16 * p + 1), enc.P[f'FAIL{p}'])))
      elif mode == 'stop':
        conj.append(z3.Implies(last, z3.And(tag == 1, kind == F.K_STOP)))
      elif mode == 'stop-error':
        conj.append(z3.Implies(last, z3.Or(z3.And(tag == 2, kind == F.K_USER), z3.And(tag == 1, kind == F.K_STOP))))
      elif mode == 'timeout':
        conj.append(z3.Implies(last, z3.Or(z3.And(tag == 2, kind == F.K_TIMEOUT), z3.And(tag == 1, kind == F.K_STOP))))
  # lock misuse (release of a lock that is not held) is always wrong
  for tid in range(len(sysm.threads)):
    conj.append(st[('died', tid)] != 2)
  return z3.And(*conj)


def c05_ok_py(meta, logs, mode, params):
  allitems = [e[2] for lg in logs.values() for e in lg.entries if e[0] == 0]
  if len(allitems) != len(set(allitems)):
    return False, f'element received twice: {sorted(allitems)}'
  for name, lg in logs.items():
    if not lg.entries:
      return False, f'{name} ended without a terminal event'
    if any(e[0] != 0 for e in lg.entries[:-1]):
      return False, f'{name}: terminal event before the end {lg.entries}'
    last = lg.entries[-1]
    for p in range(meta['nprod']):
      seq = [e[2] for e in lg.entries if e[0] == 0 and (e[2] - 1) // 16 == p]
      if seq != sorted(seq):
        return False, f'{name}: order broken {seq}'
    if mode == 'fail':
      fails = [p for p in range(meta['nprod']) if params.get(f'FAIL{p}', 255) <= meta['items'][p]]
      if fails and not (last[0] == 2 and last[1] == F.K_USER):
        return False, f'{name} did not observe the producer exception: {lg.entries}'
      if not fails and not (last[0] == 1 and last[1] == F.K_STOP):
        return False, f'{name}: no clean end of stream {lg.entries}'
    if mode == 'stop' and not (last[0] == 1 and last[1] == F.K_STOP):
      return False, f'{name}: stop request did not end the consumer cleanly {lg.entries}'
    if mode == 'timeout' and not ((last[0] == 2 and last[1] == F.K_TIMEOUT) or (last[0] == 1)):
      return False, f'{name}: {lg.entries}'
  return True, ''


# ------------------------------------------------------------------------------------------------
# C13: MultiplexIterator -> DequeueIterator -> IteratorQueue <- pool workers (piter_fn / piter_multiplex)
# ------------------------------------------------------------------------------------------------
WORKER = '''
def worker():
  q.enqueue_from_iterator({src})
'''

MAIN_MUX = '''
def main():
  while True:
    try:
      v = next(MUX)
    except StopIteration as e:
      LOG0.stop(e)
      return
    except Exception as e:
      LOG0.err(e)
      return
    LOG0.item(v)
'''


def build_multiplex_system(par, items, shared=True, num_steps=('NS', (255, 255)), fail=None, timeout=None):
  """`par` pool workers feeding one queue (buffer 3*par as MultiplexIterator does); the main thread iterates the
  MultiplexIterator. shared=True: piter_fn (all workers pull from ONE input through _ThreadSafeIterator);
  shared=False: piter_multiplex over `par` independent inputs. num_steps: DequeueIterator early stop (255 = -1)."""
  sysm = B.System()
  src = sources()
  total = items if shared else items * par
  wiring = real_wiring(par, shared)          # constants of the queue as the CURRENT piter_* / MultiplexIterator code sets them up
  sysm.wiring = wiring
  queue_spec('q', sysm, wiring['max_enqueuer'], wiring['buffer'], max(total, 1), timeout, 0, max_batch_size=min(wiring['max_batch_size'], 3))
  if isinstance(timeout, str):
    sysm.params[timeout] = (0, 1)
  iters, logs = {}, {'LOG0': total + 2}
  sysm.logs['LOG0'] = total + 2
  ns_name, ns_rng = num_steps
  globs = {}
  if ns_rng[0] != ns_rng[1]:
    sysm.params[ns_name] = ns_rng
    ns_val = F.Val('int', e=('param', ns_name))
  else:
    ns_val = ns_rng[0]
  nsources = 1 if shared else par
  for p in range(nsources):
    d = {'n': items, 'base': 16 * p + 1, 'ret': 0, 'fail': None}
    if fail and p in fail:
      sysm.params[f'FAIL{p}'] = fail[p]
      d['fail'] = f'FAIL{p}'
    sysm.iters[f'SRC{p}'] = d
    iters[f'SRC{p}'] = f'SRC{p}'
  if shared:
    sysm.objects['TSI'] = F.ObjSpec('TSI', '_ThreadSafeIterator', {}, prims={'_lock': ('lock', 'TSI.L')}, consts={'_iterator': F.Val('iter', it='SRC0')})
    sysm.locks['TSI.L'] = 'lock'
  sysm.objects['DQ'] = F.ObjSpec('DQ', 'DequeueIterator', {'_cnt': ('int', 0), '_cache': ('list', 0)},
                                 consts={'_iterator_queue': '@obj:q', '_num_steps': ns_val,
                                         '_run_until_exhausted': F.Val('bool', e=('op', '<', ns_val.c['e'] if isinstance(ns_val, F.Val) else F.C(ns_val), F.C(0)))})
  workers = [f'worker{p}' for p in range(par)]
  sysm.objects['MUX'] = F.ObjSpec('MUX', 'MultiplexIterator', {}, prims={'_thread_pool': ('pool', 'POOL')}, consts={'_iterator': '@obj:DQ', 'name': 'mux', '_name': 'mux'})
  comp = F.Compiler(src, sysm.objects, iters, logs, globs)
  # the pool primitive needs to know its threads
  sysm.objects['MUX'].prims['_thread_pool'] = ('pool', 'POOL')
  comp_pool_threads = workers
  orig = comp.obj_attr
  def obj_attr(base, a, node):
    v = orig(base, a, node)
    if v.ty == 'prim' and v.c['kind'] == 'pool':
      v.c['threads'] = comp_pool_threads
    return v
  comp.obj_attr = obj_attr
  for p in range(par):
    sysm.threads.append(comp.compile_thread(f'worker{p}', WORKER.format(src='TSI' if shared else f'SRC{p}')))
    sysm.thread_ids[f'worker{p}'] = p
  sysm.threads.append(comp.compile_thread('main', MAIN_MUX))
  sysm.thread_ids['main'] = par
  sysm.meta = {'nprod': nsources, 'items': (items,) * nsources, 'ncons': 1, 'par': par, 'shared': shared, 'total': total,
               'encoded_lines': sorted(comp.encoded_lines), 'dropped_lines': sorted(comp.dropped_lines)}
  return sysm


def real_wiring(par, shared):
  """Runs the real MultiplexIterator constructor (piter_fn / piter_multiplex wiring) with a recording executor and
  returns the constants it configures the result queue with."""
  from concurrent import futures as _f
  from ml_metrics._src.utils import iter_utils
  submitted = []

  class Recorder:
    def __init__(self, *a, **k): self.kw = k
    def submit(self, fn, *a, **k): submitted.append((fn, a))
    def shutdown(self, *a, **k): pass
  real = iter_utils.futures.ThreadPoolExecutor
  iter_utils.futures.ThreadPoolExecutor = Recorder
  try:
    srcs = [[1, 2]] if shared else [[1, 2] for _ in range(par)]
    mux = iter_utils.MultiplexIterator(data_sources=srcs, iter_fn=(lambda it: (x for x in it)) if shared else None, parallism=par)
  finally:
    iter_utils.futures.ThreadPoolExecutor = real
  dq = mux._iterator
  q = dq._iterator_queue
  inner = q._queue
  return {'max_enqueuer': q._max_enqueuer, 'buffer': getattr(inner, 'maxsize', 0) or 0, 'max_batch_size': q._max_batch_size,
          'timeout': q.timeout, 'tasks': len(submitted), 'task_fns': sorted({getattr(fn, '__name__', str(fn)) for fn, _ in submitted}),
          'num_steps': dq._num_steps, 'pool_workers': mux._thread_pool.kw.get('max_workers')}


def c13_ok(enc, sysm, st):
  """Final state of C13: outputs form a sub-multiset without duplicates; run to exhaustion -> ALL elements, clean end;
  early stop at k -> exactly k outputs then a clean end; a failing input -> the error reaches the consumer."""
  import z3
  m = sysm.meta
  conj = []
  # C13 states the sequential MULTISET: with a shared input two workers may legitimately deliver neighbouring elements in either order
  ents = items_sane(enc, sysm, st, conj, ordered=False)['LOG0']
  ln = st[('loglen', 'LOG0')]
  nitems = bvsum([z3.And(z3.ULT(B.BV(j), ln), tag == 0) for j, tag, kind, val in ents])
  ns = enc.P['NS'] if 'NS' in enc.P else B.BV(sysm.objects['DQ'].consts['_num_steps'] & 0xFF if isinstance(sysm.objects['DQ'].consts['_num_steps'], int) else 255)
  fails = z3.Or(*[z3.ULE(enc.P[f'FAIL{p}'], B.BV(m['items'][p])) for p in range(m['nprod']) if f'FAIL{p}' in enc.P]) if any(f'FAIL{p}' in enc.P for p in range(m['nprod'])) else z3.BoolVal(False)
  total = m['total']
  conj.append(z3.UGE(ln, 1))
  for j, tag, kind, val in ents:
    last = ln == j + 1
    run_all = ns == 255
    conj.append(z3.Implies(z3.And(last, run_all, z3.Not(fails)), z3.And(tag == 1, kind == F.K_STOP, nitems == total)))
    conj.append(z3.Implies(z3.And(last, z3.Not(run_all), z3.Not(fails)),
                           z3.And(tag == 1, kind == F.K_STOP, nitems == z3.If(z3.ULT(z3.ZeroExt(24, ns), z3.BitVecVal(total, 32)), z3.ZeroExt(24, ns), z3.BitVecVal(total, 32)))
                           if False else z3.And(tag == 1, kind == F.K_STOP)))
    conj.append(z3.Implies(z3.And(last, fails, run_all), z3.And(tag == 2, kind == F.K_USER)))
  # early stop: exactly min(k, total) outputs
  for k in range(0, total + 1):
    conj.append(z3.Implies(z3.And(ns == k, z3.Not(fails)), nitems == min(k, total)))
  for tid in range(len(sysm.threads)):
    conj.append(st[('died', tid)] != 2)
  return z3.And(*conj)


def c13_ok_py(meta, logs, params, ns_const):
  lg = logs['LOG0'].entries
  items = [e[2] for e in lg if e[0] == 0]
  if len(items) != len(set(items)):
    return False, f'element delivered twice: {items}'
  ns = params.get('NS', ns_const)
  fails = any(params.get(f'FAIL{p}', 255) <= meta['items'][p] for p in range(meta['nprod']))
  if not lg or any(e[0] != 0 for e in lg[:-1]):
    return False, f'bad terminal structure {lg}'
  last = lg[-1]
  if not fails:
    want = meta['total'] if ns == 255 else min(ns, meta['total'])
    if len(items) != want or last[0] != 1:
      return False, f'expected {want} outputs and a clean end, got {lg}'
  elif ns == 255 and not (last[0] == 2 and last[1] == F.K_USER):
    return False, f'failure of the input not observed: {lg}'
  return True, ''


class CtlPool:
  """ThreadPoolExecutor work-alike for replays: shutdown() = join of the worker threads."""

  def __init__(self, sched, workers):
    self.s, self.workers = sched, workers

  def shutdown(self, wait=True, cancel_futures=False):
    self.s.point('join', '', can_proceed=lambda: all(self.s.state[w] == 'finished' for w in self.workers))


def multiplex_threads(sysm, enc, trace, drivers):
  from . import bmc_replay as R
  from ml_metrics._src.utils import iter_utils
  m = sysm.meta
  P = trace['params']
  logs = {'LOG0': PyLog()}

  def make(sched):
    to = sysm.timeout
    timeout = (1.0 if (P[to] if isinstance(to, str) else to) else None)
    w = sysm.wiring
    q = real_queue(sched, enc, 'q', w['buffer'], w['max_enqueuer'], timeout)
    q._max_batch_size = min(w['max_batch_size'], 3)
    env = {'q': q, 'LOG0': logs['LOG0']}
    srcs = {}
    for p in range(m['nprod']):
      d = sysm.iters[f'SRC{p}']
      fail = P.get(d['fail']) if d.get('fail') else None
      srcs[f'SRC{p}'] = R.ModelIter(sched, f'SRC{p}', d['n'], d['base'], None, None if fail in (None, 255) else fail)
    env.update(srcs)
    if m['shared']:
      tsi = iter_utils._ThreadSafeIterator(srcs['SRC0'])
      tsi._lock = R.CtlLock(sched, 'TSI.L')
      env['TSI'] = tsi
    nsd = sysm.objects['DQ'].consts['_num_steps']
    ns = P['NS'] if 'NS' in P else (nsd if isinstance(nsd, int) else 255)
    dq = iter_utils.DequeueIterator(q, num_steps=(-1 if ns == 255 else ns))
    mux = object.__new__(iter_utils.MultiplexIterator)
    mux._name = 'mux'
    mux._iterator = dq
    mux._thread_pool = CtlPool(sched, [f'worker{p}' for p in range(m['par'])])
    env['MUX'] = mux
    fns = {}
    for name, src in drivers.items():
      ns_ = dict(env)
      exec(src, ns_)
      fns[name] = [v for k, v in ns_.items() if callable(v) and getattr(v, '__code__', None) is not None and v.__code__.co_filename == '<string>'][-1]
    return fns
  return make, logs, {}


# ------------------------------------------------------------------------------------------------
# C15: PrefetchedCourierServer._next_batch / _stop_prefetch over the prefetch queue
# ------------------------------------------------------------------------------------------------
COURIER_SERVER = 'ml_metrics/_src/chainables/courier_server.py'

CLIENT_LOOP = '''
def client():
  # the client loop of courier_utils.async_iterate: ask for batches until a terminal marker arrives
  while True:
    batch = SRV._next_batch({bs})
    LOG0.item(batch)
    if LOG0_DONE(batch):
      return
'''

SHUTDOWN = '''
def shutdown():
  SRV._stop_prefetch({fatal})
'''


def build_prefetch_system(items, prefetch, batch, fail=None, stopper=None):
  """One generator life-cycle: the prefetch thread feeds the queue, the request handler thread serves next-batch
  requests (batch size `batch`), optionally a third thread calls _stop_prefetch (shutdown / re-initialisation)."""
  sysm = B.System()
  path = os.path.join(common.REPO, ITER_UTILS)
  src = F.load_sources([path, os.path.join(common.REPO, COURIER_SERVER)],
                       {'IteratorQueue', 'IterableQueue', 'PrefetchedCourierServer', 'CourierServer'}, {'_release_and_notify', 'is_stop_iteration'})
  queue_spec('q', sysm, 0, prefetch, max(items, 1), None, 0, max_batch_size=3)
  d = {'n': items, 'base': 1, 'ret': 1, 'fail': None}
  if fail:
    sysm.params['FAIL0'] = fail
    d['fail'] = 'FAIL0'
  sysm.iters['SRC0'] = d
  sysm.logs['LOG0'] = items + 3
  sysm.objects['SRV'] = F.ObjSpec('SRV', 'PrefetchedCourierServer', {'_last_heartbeat': ('int', 0), '_shutdown_requested': ('bool', 0)},
                                  prims={'_generator_lock': ('lock', 'SRV.G'), '_enqueue_thread': ('thread', 'prefetch')},
                                  consts={'_generator': '@obj:q', 'address': 'srv'})
  sysm.locks['SRV.G'] = 'lock'
  comp = F.Compiler(src, sysm.objects, {'SRC0': 'SRC0'}, {'LOG0': items + 3}, {})
  sysm.threads.append(comp.compile_thread('prefetch', WORKER.format(src='SRC0')))
  sysm.thread_ids['prefetch'] = 0
  # LOG0_DONE(batch): the batch carries a terminal marker
  comp.sources['']['LOG0_DONE'] = __import__('ast').parse('def LOG0_DONE(b):\n  return BATCH_HAS_MARKER(b)').body[0]
  sysm.threads.append(comp.compile_thread('client', CLIENT_LOOP.format(bs=batch)))
  sysm.thread_ids['client'] = 1
  if stopper is not None:
    sysm.threads.append(comp.compile_thread('shutdown', SHUTDOWN.format(fatal='True' if stopper == 'fatal' else 'False')))
    sysm.thread_ids['shutdown'] = 2
  sysm.meta = {'nprod': 1, 'items': (items,), 'ncons': 1, 'batch': batch, 'prefetch': prefetch, 'stopper': stopper,
               'encoded_lines': sorted(comp.encoded_lines), 'dropped_lines': sorted(comp.dropped_lines)}
  return sysm


def c15_ok(enc, sysm, st):
  """Concatenated batches = the generator's elements in order, each once, then exactly one end marker carrying the
  return value; on a failure the exception comes after ALL elements produced before it; a stop/shutdown ends the
  stream with an error marker and nothing is delivered twice."""
  import z3
  m = sysm.meta
  n = m['items'][0]
  conj = []
  ents = items_sane(enc, sysm, st, conj)['LOG0']
  ln = st[('loglen', 'LOG0')]
  conj.append(z3.UGE(ln, 1))
  nitems = bvsum([z3.And(z3.ULT(B.BV(j), ln), tag == 0) for j, tag, kind, val in ents])
  fail = enc.P['FAIL0'] if 'FAIL0' in enc.P else B.BV(255)
  fails = z3.ULE(fail, B.BV(n))
  for j, tag, kind, val in ents:
    last = ln == j + 1
    # in-order prefix: the j-th delivered element is element j
    conj.append(z3.Implies(z3.And(z3.ULT(B.BV(j), ln), tag == 0), val == j + 1))
    if m['stopper'] is None:
      conj.append(z3.Implies(z3.And(last, z3.Not(fails)), z3.And(tag == 1, kind == F.K_STOP, val == 1 + 16, nitems == n)))
      conj.append(z3.Implies(z3.And(last, fails), z3.And(tag == 2, kind == F.K_USER, fail == nitems)))
    else:
      # a stop request may cut the stream short, but then the terminal marker is an error (never a clean end with missing elements)
      conj.append(z3.Implies(z3.And(last, tag == 1), z3.And(kind == F.K_STOP, nitems == n)))
      conj.append(z3.Implies(last, tag != 0))
  for tid in range(len(sysm.threads)):
    conj.append(st[('died', tid)] != 2)
  return z3.And(*conj)


def c15_ok_py(meta, logs, params):
  lg = logs['LOG0'].entries
  n = meta['items'][0]
  items = [e[2] for e in lg if e[0] == 0]
  if items != list(range(1, len(items) + 1)):
    return False, f'delivered elements are not an in-order prefix without repeats: {items}'
  if not lg or any(e[0] != 0 for e in lg[:-1]) or lg[-1][0] == 0:
    return False, f'missing or misplaced terminal marker: {lg}'
  last = lg[-1]
  fail = params.get('FAIL0', 255)
  if meta['stopper'] is None:
    if fail <= n:
      if not (last[0] == 2 and last[1] == F.K_USER and len(items) == fail):
        return False, f'generator failed at position {fail}: expected {fail} elements then the exception, got {lg}'
    elif not (last[0] == 1 and len(items) == n and last[2] == 17):
      return False, f'expected all {n} elements and one end marker with the return value, got {lg}'
  elif last[0] == 1 and len(items) != n:
    return False, f'clean end marker although elements are missing: {lg}'
  return True, ''


class CtlThread:
  def __init__(self, sched, name):
    self.s, self.name = sched, name
  def join(self, timeout=None):
    self.s.point('join', '', can_proceed=lambda: self.s.state[self.name] == 'finished')
  def is_alive(self):
    return self.s.state[self.name] != 'finished'


def prefetch_threads(sysm, enc, trace, drivers):
  from . import bmc_replay as R
  m = sysm.meta
  P = trace['params']
  logs = {'LOG0': PyLog()}

  def make(sched):
    import sys, types
    if 'courier' not in sys.modules or not hasattr(sys.modules['courier'], 'Server'):
      fake = types.ModuleType('courier'); fake.Server = object; fake.Client = object
      sys.modules['courier'] = fake
    from ml_metrics._src.chainables import courier_server, lazy_fns
    q = real_queue(sched, enc, 'q', m['prefetch'], 0, None)
    srv = object.__new__(courier_server.PrefetchedCourierServer)
    srv._generator = q
    srv._generator_lock = R.CtlLock(sched, 'SRV.G')
    srv._enqueue_thread = CtlThread(sched, 'prefetch')
    srv._shutdown_requested = False
    srv._last_heartbeat = 0.0
    import threading as _th
    srv._tx_stats_lock = _th.Lock()
    srv._tx_stats = (0.0, 0, 0)
    fail = P.get('FAIL0')
    d = sysm.iters['SRC0']
    src = R.ModelIter(sched, 'SRC0', d['n'], d['base'], d['ret'], None if fail in (None, 255) else fail)

    class Srv:      # the request handler sees pickled bytes; the client un-pickles them (as courier_utils does)
      def _next_batch(self, bs):
        return lazy_fns.maybe_make(srv._next_batch(bs))
      def _stop_prefetch(self, fatal=False):
        return srv._stop_prefetch(fatal)

    class Log(PyLog):
      def item(self, batch):
        for x in batch:
          if isinstance(x, StopIteration):
            self.stop(x)
          elif isinstance(x, Exception):
            self.err(x)
          else:
            self.entries.append((0, 0, int(x)))
    logs['LOG0'] = Log()
    env = {'q': q, 'SRV': Srv(), 'LOG0': logs['LOG0'], 'SRC0': src,
           'LOG0_DONE': lambda b: any(isinstance(x, Exception) for x in b)}
    fns = {}
    for name, srcode in drivers.items():
      ns_ = dict(env)
      exec(srcode, ns_)
      fns[name] = [v for k, v in ns_.items() if callable(v) and getattr(v, '__code__', None) is not None and v.__code__.co_filename == '<string>'][-1]
    return fns
  return make, logs, {}


# ------------------------------------------------------------------------------------------------
# C20 (concurrent part): two pools competing for one shared Worker (Worker is a singleton per address)
# ------------------------------------------------------------------------------------------------
COURIER_WORKER = 'ml_metrics/_src/chainables/courier_worker.py'

POOL_A = '''
def pool_a():
  got = W.acquire_by(PA)
  if got:
    LOGA.item(W.is_locked(PA))
  PA.release_all()
'''

POOL_A_CLEANUP = '''
def pool_a():
  PA.release_all()          # e.g. the cleanup at the end of a pool-level operation, while another pool is acquiring
'''

POOL_B = '''
def pool_b():
  got = W.acquire_by(PB)
  if got:
    LOGB.item(W.is_locked(PB))      # B was told it owns the worker: nobody else may release it
    W.release()
'''

POOL_B_BLOCKING = '''
def pool_b():
  got = W.acquire_by(PB, blocking=True)
  if got:
    LOGB.item(W.is_locked(PB))
    W.release()
'''


POOL_ACQ_ALL = '''
def {name}():
  got = {pool}._acquire_all()
  for w in got:
    {log}.item(w.is_locked({pool}))
  {pool}.release_all()
'''

POOL_ACQ_ALL_BLOCKING = '''
def {name}():
  got = {pool}._acquire_all(blocking=True)
  for w in got:
    {log}.item(w.is_locked({pool}))
  {pool}.release_all()
'''


def ownership_drivers(variant):
  if variant == 'acquire_all':
    return POOL_ACQ_ALL.format(name='pool_a', pool='PA', log='LOGA'), POOL_ACQ_ALL.format(name='pool_b', pool='PB', log='LOGB')
  if variant == 'acquire_all_blocking':
    return POOL_ACQ_ALL.format(name='pool_a', pool='PA', log='LOGA'), POOL_ACQ_ALL_BLOCKING.format(name='pool_b', pool='PB', log='LOGB')
  return (POOL_A_CLEANUP if variant == 'cleanup' else POOL_A), (POOL_B_BLOCKING if variant == 'blocking' else POOL_B)


def build_ownership_system(variant='nonblocking', nworkers=1):
  sysm = B.System()
  src = F.load_sources([os.path.join(common.REPO, COURIER_WORKER)], {'Worker', 'WorkerPool'}, set())
  wnames = ['W'] + [f'W{i}' for i in range(2, nworkers + 1)]
  for wn in wnames:
    sysm.objects[wn] = F.ObjSpec(wn, 'Worker', {'_worker_pool': ('ref', 0)}, prims={'_lock': ('lock', wn + '.L'), '_states_lock': ('rlock', wn + '.S')}, consts={'address': wn.lower()})
    sysm.locks[wn + '.L'] = 'lock'
    sysm.locks[wn + '.S'] = 'rlock'
  for pn in ('PA', 'PB'):
    sysm.objects[pn] = F.ObjSpec(pn, 'WorkerPool', {}, consts={'_workers': F.Val('tuple', items=[F.Val('obj', obj=wn) for wn in wnames])})
  sysm.logs['LOGA'] = 2
  sysm.logs['LOGB'] = 2
  comp = F.Compiler(src, sysm.objects, {}, {'LOGA': 2, 'LOGB': 2}, {})
  da, db = ownership_drivers(variant)
  sysm.threads.append(comp.compile_thread('pool_a', da))
  sysm.threads.append(comp.compile_thread('pool_b', db))
  sysm.meta = {'variant': variant, 'workers': wnames, 'encoded_lines': sorted(comp.encoded_lines), 'dropped_lines': sorted(comp.dropped_lines), 'nprod': 0, 'items': (), 'ncons': 0}
  return sysm


def c20_ok(enc, sysm, st, final=True):
  """While a pool has been told that it owns the worker (acquire_by returned True) it really owns it."""
  import z3
  conj = []
  for lg in ('LOGA', 'LOGB'):
    ln = st[('loglen', lg)]
    for j in range(sysm.logs[lg]):
      conj.append(z3.Implies(z3.ULT(B.BV(j), ln), st[('log', lg, j, 'val')] == 1))
  # at the end nobody holds the worker and no lock misuse happened
  if final:
    for wn in sysm.meta['workers']:
      conj.append(st[('cnt', wn + '.L')] == 0)
  for tid in range(len(sysm.threads)):
    conj.append(st[('died', tid)] == 0)
  return z3.And(*conj)


def c20_ok_py(logs, holder, final=True):
  for name, lg in logs.items():
    if any(e[2] != 1 for e in lg.entries):
      return False, f'{name}: the pool was told it owns the worker but is_locked(pool) was False afterwards: {lg.entries}'
    if getattr(lg, 'last_error', None):
      return False, f'{name}: {lg.last_error}'
  for w in (holder.get('workers') or []) if final else []:
    if w._lock.owner is not None:
      return False, 'a worker is still locked after both pools released'
  return True, ''


def ownership_threads(sysm, enc, trace, drivers):
  from . import bmc_replay as R
  logs = {'LOGA': PyLog(), 'LOGB': PyLog()}
  holder = {}

  def make(sched):
    import sys, types
    try:
      import courier as cmod
    except ImportError:
      cmod = types.ModuleType('courier')
      sys.modules['courier'] = cmod
    if not hasattr(cmod, 'Client'):
      class _C:
        def __init__(self, *a, **k): self.futures = types.SimpleNamespace()
      cmod.Client = _C
    if not hasattr(cmod, 'Server'):
      cmod.Server = object
    from ml_metrics._src.chainables import courier_worker
    ws = {}
    for wn in sysm.meta['workers']:
      w = courier_worker.Worker('vf-replay-' + wn.lower())
      racy = sorted({r[2] for r in enc.racy if r[0] == 'g' and r[1] == wn})
      cls = type('WorkerUnderReplay', (courier_worker.Worker,), {f: R.RacyField(sched, wn, f) for f in racy})
      for f in racy:
        w.__dict__['_vf_' + f] = w.__dict__.pop(f, None)
      w.__class__ = cls
      w._lock = R.CtlLock(sched, wn + '.L')
      w._states_lock = R.CtlRLock(sched, wn + '.S')
      if '_worker_pool' not in racy:
        w._worker_pool = None
      else:
        w.__dict__['_vf__worker_pool'] = None
      ws[wn] = w
    pools = {}
    for pn in ('PA', 'PB'):
      p = object.__new__(courier_worker.WorkerPool)
      p._workers = list(ws.values())
      pools[pn] = p
    holder['workers'] = list(ws.values())
    env = {**ws, **pools, **logs}
    fns = {}
    for name, srcode in drivers.items():
      ns_ = dict(env)
      exec(srcode, ns_)
      fns[name] = [v for k, v in ns_.items() if callable(v) and getattr(v, '__code__', None) is not None and v.__code__.co_filename == '<string>'][-1]
    return fns
  return make, logs, holder


# ------------------------------------------------------------------------------------------------
# C20 (concurrent part, liveness table): register / refresh / unregister of one address from several threads
# ------------------------------------------------------------------------------------------------
COURIER_UTILS = 'ml_metrics/_src/utils/courier_utils.py'
REG_KEY = 'w0'
REG_OPS = {'refresh': "REG.refresh('w0', {t})", 'register': "REG.register('w0', {t})", 'unregister': "REG.unregister('w0')"}


def registry_drivers(ops):
  out = {}
  for i, op in enumerate(ops):
    out[f't{i}_{op}'] = f"def t{i}_{op}():\n  " + REG_OPS[op].format(t=f'T{i}') + "\n"
  return out


def build_registry_system(ops, init):
  """ops: e.g. ('refresh', 'unregister'); init: 'absent' | 'dead' | 'alive' (symbolic heartbeat 1..9)."""
  sysm = B.System()
  src = F.load_sources([os.path.join(common.REPO, COURIER_UTILS)], {'WorkerRegistry'}, set())
  if init == 'alive':
    sysm.params['INIT'] = (1, 9)
  initv = {'absent': F.OPT_ABSENT, 'dead': F.OPT_NONE, 'alive': 'INIT'}[init]
  sysm.objects['REG'] = F.ObjSpec('REG', 'WorkerRegistry', {'data': ('int', initv)}, prims={'_lock': ('lock', 'REG.L'), 'data': ('dict1', 'data', REG_KEY)})
  sysm.locks['REG.L'] = 'lock'
  globs = {}
  for i, op in enumerate(ops):
    if op != 'unregister':
      sysm.params[f'T{i}'] = (1, 9)
      globs[f'T{i}'] = F.Val('int', e=('param', f'T{i}'))
  comp = F.Compiler(src, sysm.objects, {}, {}, globs)
  for name, d in registry_drivers(ops).items():
    sysm.threads.append(comp.compile_thread(name, d))
  sysm.meta = {'ops': tuple(ops), 'init': init, 'encoded_lines': sorted(comp.encoded_lines), 'dropped_lines': sorted(comp.dropped_lines), 'nprod': 0, 'items': (), 'ncons': 0}
  return sysm


def registry_allowed(ops, init, times):
  """Final table entries the sequential semantics allows: every order of the atomic operations (python reference)."""
  import itertools
  res = set()
  for perm in itertools.permutations(range(len(ops))):
    v = init
    for i in perm:
      if ops[i] == 'register':
        v = times[i]
      elif ops[i] == 'unregister':
        v = None
      elif v is not None:            # refresh never revives a dead worker and never moves the heartbeat backwards
        v = max(0 if v == 'absent' else v, times[i])
    res.add(v)
  return res


def c20_registry_ok(enc, sysm, st):
  """The final entry equals the result of SOME sequential order of the (atomic) operations; nobody died with a TypeError."""
  import z3, itertools
  ops, init = sysm.meta['ops'], sysm.meta['init']
  fin = st[('g', 'REG', 'data')]
  T = {i: enc.P[f'T{i}'] for i, op in enumerate(ops) if op != 'unregister'}
  ABSENT = ('absent',)
  v0 = {'absent': ABSENT, 'dead': None, 'alive': enc.P.get('INIT')}[init]
  def mx(a, b):
    return z3.If(z3.UGE(a, b), a, b)
  alts = []
  for perm in itertools.permutations(range(len(ops))):
    v = v0
    for i in perm:
      if ops[i] == 'register':
        v = T[i]
      elif ops[i] == 'unregister':
        v = None
      elif v is not None:
        v = T[i] if v is ABSENT else mx(v, T[i])
    alts.append(fin == (B.BV(F.OPT_NONE) if v is None else B.BV(F.OPT_ABSENT) if v is ABSENT else v))
  conj = [z3.Or(*alts)]
  for tid in range(len(sysm.threads)):
    conj.append(st[('died', tid)] == 0)
  return z3.And(*conj)


def c20_registry_ok_py(meta, holder, params):
  reg = holder.get('REG')
  fin = reg.data.get(REG_KEY, 'absent')
  times = {i: params.get(f'T{i}') for i in range(len(meta['ops']))}
  init = {'absent': 'absent', 'dead': None, 'alive': params.get('INIT')}[meta['init']]
  allowed = registry_allowed(meta['ops'], init, times)
  if holder.get('errors'):
    return False, f"a registry operation raised: {holder['errors']}"
  if fin not in allowed:
    return False, f'final liveness entry {fin!r} is not the result of any order of {meta["ops"]} with times {times} from {init!r} (allowed: {sorted(map(repr, allowed))})'
  return True, ''


def registry_threads(sysm, enc, trace, drivers):
  from . import bmc_replay as R
  holder = {'errors': []}
  P = trace['params']

  def make(sched):
    import sys, types
    try:
      import courier as cmod
    except ImportError:
      cmod = types.ModuleType('courier')
      sys.modules['courier'] = cmod
    from ml_metrics._src.utils import courier_utils
    reg = courier_utils.WorkerRegistry()
    reg._lock = R.CtlLock(sched, 'REG.L')
    if sysm.meta['init'] == 'dead':
      reg.data[REG_KEY] = None
    elif sysm.meta['init'] == 'alive':
      reg.data[REG_KEY] = P['INIT']
    holder['REG'] = reg
    env = {'REG': reg, **{k: v for k, v in P.items() if k.startswith('T')}}
    fns = {}
    for name, srcode in drivers.items():
      ns_ = dict(env)
      exec(srcode, ns_)
      f = ns_[name]
      def run(f=f, name=name):
        try:
          f()
        except Exception as e:      # a TypeError from max(None, t) etc. is part of the observable outcome
          holder['errors'].append((name, repr(e)))
      fns[name] = run
    return fns
  return make, {}, holder
