"""Engine B, replay: re-executes a BMC counterexample schedule on the REAL iter_utils code.

Real python threads run the real methods; the synchronisation primitives of the object under test are replaced by
controlled, never-blocking work-alikes (re-entrant lock, condition with FIFO waiters, queue) and the racy fields
found by the static analysis are wrapped in descriptors, so that every model pre-emption point is a hand-over point.
A thread runs until it reaches the next stop the model trace expects for it - identified by (kind, resource, source
line) - and then waits for its next turn. Any disagreement with the model (a scheduled thread cannot take its lock,
a stop is never reached, a thread ends early) raises `Mismatch`: the counterexample is then NOT reported as a
violation but as a harness error.
"""
from __future__ import annotations

import queue as _queue
import sys
import threading


class Mismatch(Exception):
  pass


class Sched:

  def __init__(self, expected, timeout_steps):
    self.expected = expected          # thread name -> list of (kind, resource, line) stops, in order (excluding the start)
    self.pos = {k: 0 for k in expected}
    self.go = {k: threading.Event() for k in expected}
    self.ctl = threading.Event()
    self.state = {k: 'new' for k in expected}     # new | stopped | running | finished | blocked | error
    self.where = {k: None for k in expected}
    self.errors = []
    self.local = threading.local()
    self.timeout_steps = timeout_steps            # thread name -> list of booleans for successive 'wake' stops
    self.wake_no = {k: 0 for k in expected}
    self.free_run = False
    self.lock_registry = []           # every controlled lock / condition (to know what the running thread holds)
    self.progress = {}

  def me(self):
    return getattr(self.local, 'name', None)

  def caller_line(self, depth=2):
    f = sys._getframe(depth)
    # climb out of this module and of contextlib / threading helpers
    import os
    here = os.path.dirname(os.path.abspath(__file__))
    while f is not None and (f.f_code.co_filename.startswith(here) or 'threading.py' in f.f_code.co_filename or 'contextlib' in f.f_code.co_filename):
      f = f.f_back
    return f.f_lineno if f is not None else 0

  def point(self, kind, res, can_proceed=None):
    """Called by the running thread at a potential pre-emption point. The thread stops here if the model trace
    expects a stop at this (kind, resource, line), or if it simply cannot proceed (lock busy / not notified)."""
    name = self.me()
    if name is None:
      return
    line = self.caller_line()
    exp = self.expected[name]
    i = self.pos[name]
    import os
    if os.environ.get('VF_DEBUG_REPLAY'):
      sys.stderr.write(f'POINT {name} {(kind, res, line)} expecting {exp[i] if i < len(exp) else None}\n')
    stop_here = (not self.free_run) and i < len(exp) and exp[i][0] == kind and exp[i][1] == res and exp[i][2] == line
    if stop_here and len(exp[i]) > 3 and exp[i][3]:
      held = frozenset(l.name for l in self.lock_registry if l.owner == name)
      stop_here = any(not (ls & held) for (_w, ls) in exp[i][3])       # unprotected against at least one conflicting access
    if stop_here:
      self.pos[name] = i + 1
    while stop_here or (can_proceed is not None and not can_proceed()):
      self.where[name] = (kind, res, line)
      self.state[name] = 'stopped'
      self.ctl.set()
      self.go[name].wait()
      self.go[name].clear()
      self.state[name] = 'running'
      if can_proceed is not None and not can_proceed():
        if not self.free_run:
          raise Mismatch(f'{name} was scheduled at {(kind, res, line)} but cannot proceed there')
        stop_here = False
        continue             # free run: still blocked, stop again (no progress)
      break
    self.progress[name] = self.progress.get(name, 0) + 1

class CtlRLock:

  def __init__(self, sched, name):
    self.s, self.name = sched, name
    self.owner, self.count = None, 0
    sched.lock_registry.append(self)

  def acquire(self, blocking=True, timeout=-1):
    me = self.s.me()
    if self.owner == me and me is not None:
      self.s.point('acq', self.name)      # only a stop if the model made it one
      self.count += 1
      return True
    if not blocking:
      self.s.point('tryacq', self.name)
      if self.owner is None:
        self.owner, self.count = me, 1
        return True
      return False
    self.s.point('acq', self.name, can_proceed=lambda: self.owner is None)
    self.owner, self.count = me, 1
    return True

  def release(self):
    me = self.s.me()
    if self.owner != me:
      raise RuntimeError('cannot release un-acquired lock')
    self.count -= 1
    if self.count == 0:
      self.owner = None

  __enter__ = acquire

  def __exit__(self, *a):
    self.release()

  def locked(self):
    self.s.point('locked', self.name)
    return self.owner is not None

  # Condition support
  def _release_save(self):
    st = (self.owner, self.count)
    self.owner, self.count = None, 0
    return st

  def _acquire_restore(self, st):
    self.owner, self.count = st


class CtlLock(CtlRLock):
  """threading.Lock work-alike: not re-entrant, not owned (any thread may release it)."""

  def acquire(self, blocking=True, timeout=-1):
    me = self.s.me()
    if not blocking:
      self.s.point('tryacq', self.name)
      if self.owner is None:
        self.owner, self.count = me, 1
        return True
      return False
    self.s.point('acq', self.name, can_proceed=lambda: self.owner is None)
    self.owner, self.count = me, 1
    return True

  def release(self):
    if self.owner is None:
      raise RuntimeError('release unlocked lock')
    self.owner, self.count = None, 0

  __enter__ = acquire


class CtlCondition(CtlRLock):
  """threading.Condition() work-alike (own re-entrant lock, FIFO waiters)."""

  def __init__(self, sched, name):
    super().__init__(sched, name)
    self.waiters = []       # [name, notified]

  def wait(self, timeout=None):
    me = self.s.me()
    if self.owner != me:
      raise RuntimeError('cannot wait on un-acquired lock')
    w = [me, False]
    self.waiters.append(w)
    saved = self._release_save()
    k = self.s.wake_no[me]
    self.s.wake_no[me] = k + 1
    fired = self.s.timeout_steps.get(me, [])
    may_time_out = timeout is not None and k < len(fired) and fired[k]
    self.s.point('wake', self.name, can_proceed=lambda: self.owner is None and (w[1] or may_time_out))
    if w in self.waiters:
      self.waiters.remove(w)
    self._acquire_restore(saved)
    return w[1]

  def notify(self, n=1):
    if self.owner != self.s.me():
      raise RuntimeError('cannot notify on un-acquired lock')
    for w in self.waiters:
      if n <= 0:
        break
      if not w[1]:
        w[1] = True
        n -= 1
    self.waiters = [w for w in self.waiters if not w[1]]

  def notify_all(self):
    self.notify(len(self.waiters))


class CtlQueue:

  def __init__(self, sched, name, maxsize):
    self.s, self.name, self.maxsize = sched, name, maxsize
    self.items = []

  def get_nowait(self):
    self.s.point('qget', self.name)
    if not self.items:
      raise _queue.Empty()
    return self.items.pop(0)

  def put_nowait(self, v):
    self.s.point('qput', self.name)
    if self.maxsize and len(self.items) >= self.maxsize:
      raise _queue.Full()
    self.items.append(v)

  def empty(self):
    self.s.point('qempty', self.name)
    return not self.items


class RacyField:
  """Data descriptor: reads / writes of a field the analysis found racy become hand-over points."""

  def __init__(self, sched, obj_name, field):
    self.s, self.key, self.slot = sched, f'{obj_name}.{field}', '_vf_' + field

  def __get__(self, obj, cls=None):
    if obj is None:
      return self
    self.s.point('rd', self.key)
    return obj.__dict__.get(self.slot)

  def __set__(self, obj, value):
    self.s.point('wr', self.key)
    obj.__dict__[self.slot] = value


class ModelIter:
  """The producer's input: elements base..base+n-1, then StopIteration(ret); raises UserError at position `fail`."""

  def __init__(self, sched, name, n, base, ret, fail=None, resumable=False):
    self.s, self.name, self.n, self.base, self.ret, self.fail, self.pos = sched, name, n, base, ret, fail, 0
    self.dead = False
    self.resumable = resumable

  def __iter__(self):
    return self

  def __next__(self):
    self.s.point('next', self.name)
    if self.dead:
      raise (StopIteration(self.ret) if self.ret is not None else StopIteration())
    if self.fail is not None and self.pos == self.fail:
      if self.resumable:
        self.pos += 1
      else:
        self.dead = True
      raise ValueError(7)
    if self.pos >= self.n:
      raise (StopIteration(self.ret) if self.ret is not None else StopIteration())
    v = self.base + self.pos
    self.pos += 1
    return v


def stop_key(enc, sysm, tid, pc):
  """(kind, resource, line) under which the replay harness will see model PP `pc` of thread `tid`."""
  ins = sysm.threads[tid].ins[pc]
  op = ins['op']
  if op in ('acq', 'tryacq'):
    return (op, ins['lock'], ins['line'])
  if op == 'wake':
    return ('wake', ins['cond'], ins['line'])
  if op in ('qget', 'qput'):
    return (op, ins['q'], ins['line'])
  if op == 'next':
    return ('next', ins['it'], ins['line'])
  if op == 'set':
    e, dst = ins['e'], ins['dst']
    if isinstance(e, tuple) and e[0] == 'qempty':
      return ('qempty', e[1], ins['line'])
    if isinstance(e, tuple) and e[0] == 'locked':
      return ('locked', e[1], ins['line'])
    # the same source line can be reached with and without the protecting lock (e.g. the enqueue_done property is read inside
    # get_nowait under the state lock and from get_batch without it): only the unprotected access is a pre-emption point.
    # The key carries the conflicting accesses of the other threads (is_write, static lockset); at run time an access is a
    # stop only if, with the locks the thread really holds, it is still unprotected against one of them.
    def conflicts(r, is_write):
      lst = getattr(enc, 'acc', {}).get(enc.canon(r), [])
      return tuple((w2, l2) for (t2, pc2, w2, l2) in lst if t2 != tid and (w2 or is_write))
    if dst[0] == 'g':
      return ('wr', f'{dst[1]}.{enc.canon(("g", dst[1], dst[2]))[2]}', ins['line'], conflicts(('g', dst[1], dst[2]), True))
    if isinstance(e, tuple) and e[0] == 'g':
      return ('rd', f'{e[1]}.{enc.canon(e)[2]}', ins['line'], conflicts(e, False))
  if op == 'retadd':
    return ('rd', f"{ins['obj']}.{ins['field']}", ins['line'])     # self._returned.extend(..): attribute load, then in-place extend
  if op == 'join':
    return ('join', '', ins['line'])
  if op in ('halt', 'br', 'jmp', 'nop', 'start'):
    return ('start', '', 0)
  return (op, '', ins['line'])


def run_schedule(sysm, enc, trace, make_threads, run_after=True, settle_s=2.0):
  """make_threads(sched) -> {thread name: callable}. Executes the trace; returns dict(status, blocked, finished, errors).

  status: 'completed' (all scheduled steps executed) - the caller inspects observables; Mismatch is raised otherwise."""
  names = [p.name for p in sysm.threads]
  expected = {n: [] for n in names}
  timeouts = {n: [] for n in names}
  order = []
  seen_first = set()
  for st in trace['steps']:
    tid, pc = st['thread'], st['pc']
    key = stop_key(enc, sysm, tid, pc)
    if (tid, pc) in getattr(enc, 'loop_pps', ()):
      continue                          # artificial loop-breaking PP: nothing observable happens there
    if tid not in seen_first:           # a thread's first step starts at its entry, whatever instruction is there
      seen_first.add(tid)
      key = ('start', '', 0)
    order.append((names[tid], key))
    if key[0] != 'start':
      expected[names[tid]].append(key)
    if st['op'] == 'wake':
      timeouts[names[tid]].append(bool(st.get('timeout_fired')))
  # where the model leaves every unfinished thread after the last step is a stop as well
  for tid, n in enumerate(names):
    fin = (trace.get('final') or {}).get(n)
    if fin and not fin.get('halted') and tid in seen_first:
      k = stop_key(enc, sysm, tid, fin['pc'])
      if k[0] != 'start' and (tid, fin['pc']) not in getattr(enc, 'loop_pps', ()):
        expected[n].append(k)
  sched = Sched(expected, timeouts)
  fns = make_threads(sched)
  threads = {}

  def runner(name):
    sched.local.name = name
    sched.state[name] = 'stopped'
    sched.ctl.set()
    sched.go[name].wait()
    sched.go[name].clear()
    sched.state[name] = 'running'
    try:
      fns[name]()
      sched.state[name] = 'finished'
    except Mismatch as e:
      sched.errors.append(str(e))
      sched.state[name] = 'error'
    except BaseException as e:  # pylint: disable=broad-exception-caught
      sched.state[name] = 'finished'
      import traceback
      sched.where[name] = ('raised', type(e).__name__, traceback.format_exc()[-600:])
    sched.ctl.set()

  for n in names:
    t = threading.Thread(target=runner, args=(n,), daemon=True, name=n)
    threads[n] = t
    t.start()
  import time
  def wait_ctl(pred, what):
    t0 = time.time()
    while not pred():
      sched.ctl.wait(0.05)
      sched.ctl.clear()
      if sched.errors:
        raise Mismatch('; '.join(sched.errors))
      if time.time() - t0 > 20:
        raise Mismatch(f'timeout waiting for {what}: states={sched.state} where={sched.where}')
  wait_ctl(lambda: all(sched.state[n] == 'stopped' for n in names), 'threads to start')
  for step, (name, key) in enumerate(order):
    if sched.state[name] != 'stopped':
      raise Mismatch(f'step {step}: thread {name} is {sched.state[name]} (at {sched.where[name]}), model expects it stopped at {key}')
    if key[0] != 'start' and tuple(sched.where[name] or ())[:3] != tuple(key)[:3]:
      raise Mismatch(f'step {step}: thread {name} is stopped at {sched.where[name]}, model expects {key}')
    sched.state[name] = 'running'
    sched.go[name].set()
    wait_ctl(lambda: sched.state[name] in ('stopped', 'finished', 'blocked', 'error'), f'step {step} of {name}')
  # after the trace: nothing else is scheduled by the model. Let everything run freely and see who can still move.
  result = {'status': 'completed', 'after_trace': dict(sched.state), 'where_after_trace': dict(sched.where)}
  if run_after:
    sched.free_run = True
    while True:
      before = dict(sched.progress)
      for n in names:
        if sched.state[n] == 'stopped':
          sched.state[n] = 'running'
          sched.go[n].set()
          wait_ctl(lambda: sched.state[n] in ('stopped', 'finished', 'error'), f'free run of {n}')
      if sched.progress == before:
        break
    result['final'] = dict(sched.state)
    result['blocked'] = sorted(n for n in names if sched.state[n] == 'stopped')
    result['where'] = dict(sched.where)
  return result
