"""Spike: run the real orchestrate.as_completed on a fake courier transport with scripted faults (plain python)."""
import sys, types, itertools
from concurrent import futures

# ---- fake courier -------------------------------------------------------------
class DeadlineExceeded(Exception):
  code = 4
class _Futures:
  def __init__(self, client): self._c = client
  def __getattr__(self, method):
    def call(*a, **k):
      return self._c.transport.call(self._c.address, method, a, k)
    return call
class Client:
  transport = None
  def __init__(self, address, call_timeout=None):
    self.address = address; self.futures = _Futures(self)
class Server:
  def __init__(self, *a, **k): raise RuntimeError('no server in this harness')
fake = types.ModuleType('courier'); fake.Client = Client; fake.Server = Server
sys.modules['courier'] = fake

# ---- virtual clock ------------------------------------------------------------
import time as _time
class Clock:
  now = 1000.0
  @classmethod
  def time(cls): cls.now += 0.001; return cls.now
  @classmethod
  def sleep(cls, s): cls.now += max(s, 0.01)

from ml_metrics._src.utils import courier_utils
from ml_metrics._src.chainables import courier_worker, orchestrate, lazy_fns
for m in (courier_utils, courier_worker, orchestrate):
  m.time = types.SimpleNamespace(time=Clock.time, sleep=Clock.sleep)
import random; orchestrate.random = types.SimpleNamespace(shuffle=lambda x: None, sample=lambda c, k: list(c)[:k])

class Transport:
  """outcomes[(address, i)] for the i-th maybe_make call of a worker: 'ok' | 'deadline' | 'error' | 'hang'"""
  def __init__(self, outcomes): self.outcomes = outcomes; self.n = {}; self.log = []
  def call(self, address, method, a, k):
    f = futures.Future()
    if method == 'heartbeat':
      f.set_result(None); return f
    i = self.n.get(address, 0); self.n[address] = i + 1
    o = self.outcomes.get((address, i), 'ok'); self.log.append((address, i, o))
    if o == 'ok': f.set_result(lazy_fns.pickler.dumps(lazy_fns.maybe_make(a[0])))
    elif o == 'deadline': f.set_exception(DeadlineExceeded('deadline'))
    elif o == 'error': f.set_exception(ValueError('app error'))
    return f            # 'hang': never completes

def run(outcomes, ntasks=3):
  Client.transport = Transport(outcomes)
  pool = courier_worker.WorkerPool(['w0', 'w1'], call_timeout=1, heartbeat_threshold_secs=61)
  tasks = [lazy_fns.trace(lambda i=i: i * 10)() for i in range(ntasks)]
  out, err = [], None
  try:
    for r in orchestrate.as_completed(pool, tasks): out.append(r)
  except Exception as e: err = e
  return sorted(out), repr(err), [w.address for w in pool.acquired_workers], Client.transport.log

print(run({}))
print(run({('w0', 0): 'deadline'}))
print(run({('w0', 0): 'error'}))
