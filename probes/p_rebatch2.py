from ml_metrics._src.utils import iter_utils

class _Vec(list):
  """Pure-Python stand-in for a 1-D int ndarray (only what rebatched_args uses)."""
  @property
  def size(self): return len(self)
  def __iadd__(self, other):
    other = list(other)
    assert len(other) == len(self)
    for i, v in enumerate(other):
      self[i] = self[i] + v
    return self

class _NpShim:
  @staticmethod
  def zeros(n, dtype=int):
    return _Vec([0] * n)

iter_utils.np = _NpShim  # numpy modelled for int vectors only (claim: lists/tuples columns)

def rebatch_conserves(sizes: list[int], batch_size: int):
  """
  pre: 0 <= len(sizes) <= 3
  pre: all(0 <= s <= 4 for s in sizes)
  pre: 1 <= batch_size <= 4
  post: _
  """
  batches = []
  c = 0
  for s in sizes:
    col0 = list(range(c, c + s))
    col1 = [x + 100 for x in col0]
    batches.append((col0, col1))
    c += s
  out = list(iter_utils.rebatched_args(iter(batches), batch_size, num_columns=2))
  flat0 = [x for b in out for x in b[0]]
  flat1 = [x for b in out for x in b[1]]
  ok = flat0 == list(range(c)) and flat1 == [x + 100 for x in range(c)]
  ok = ok and all(len(b[0]) == batch_size for b in out[:-1])
  ok = ok and all(len(b[0]) == len(b[1]) for b in out)
  ok = ok and (not out or 0 < len(out[-1][0]) <= batch_size)
  return ok
