import numpy as np

def cm_counts(y0: int, y1: int, y2: int, p0: int, p1: int, p2: int):
  """
  pre: all(v in (0, 1) for v in (y0, y1, y2, p0, p1, p2))
  post: _
  """
  y = np.array([y0, y1, y2], dtype=object)
  p = np.array([p0, p1, p2], dtype=object)
  true = y == 1
  pos = p == 1
  neg = ~pos
  tp = (pos & true).sum()
  fn = (neg & true).sum()
  fp = pos.sum() - tp
  tn = neg.sum() - fn
  return tp + fp + tn + fn == 3 and tp + fn == y0 + y1 + y2

def fl(x: float, y: float):
  """
  pre: 0 <= x <= 10 and 0 < y <= 10
  post: _
  """
  a = np.array([x, y], dtype=object)
  return (a.sum() / 2) * 2 == x + y
