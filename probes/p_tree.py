from typing import Union
from ml_metrics._src.chainables import tree
import copy

Leaf = int
Sub = Union[int, dict[str, int], list[int]]

def get_after_set(data: dict[str, Sub], k1: str, k2: str, v: int):
  """
  pre: len(data) <= 2
  pre: all((not isinstance(x, (dict, list))) or len(x) <= 2 for x in data.values())
  post: _
  """
  snapshot = copy.deepcopy(data)
  view = tree.TreeMapView(data)
  key = tree.Key((k1, k2))
  try:
    new = view.copy_and_set(key, v)
  except (KeyError, TypeError):
    return data == snapshot
  ok = new[key] == v
  ok = ok and data == snapshot
  # frame: every other top-level key is the identical object
  for k in data:
    if k != k1:
      ok = ok and new.data[k] is data[k]
  return ok
