import collections
from ml_metrics._src.utils import func_utils
from ml_metrics._src.utils import iter_utils

def lru_model(ops: list[tuple[bool, int, int]], maxsize: int):
  """
  pre: 1 <= maxsize <= 3
  pre: len(ops) <= 5
  pre: all(0 <= k <= 3 for _, k, _ in ops)
  post: _
  """
  c = func_utils.LruCache(maxsize=maxsize)
  ref = collections.OrderedDict()
  ok = True
  for is_set, k, v in ops:
    if is_set:
      c[k] = v
      if k in ref:
        ref[k] = v            # update keeps recency position (mirrors documented behaviour)
      else:
        ref[k] = v
        if len(ref) > maxsize: ref.popitem(last=False)
    else:
      try:
        got = c[k]; hit = True
      except KeyError:
        got = None; hit = False
      ok = ok and hit == (k in ref)
      if hit:
        ok = ok and got == ref[k]; ref.move_to_end(k)
    ok = ok and len(c) == len(ref) <= maxsize and list(c) == list(ref)
  return ok

def skip_alignment(fails: list[bool]):
  """
  pre: len(fails) <= 5
  post: _
  """
  n = len(fails)
  def f(x):
    if fails[x]: raise ValueError(x)
    return x * 10
  out = list(iter_utils.processed_with_inputs(lambda it: map(f, it), iter(range(n)), ignore_error=True))
  return out == [(i * 10, i) for i in range(n) if not fails[i]]
