"""Prototype step-indexed BMC backend for a tiny threaded IR (feasibility probe)."""
import time, sys
import z3

class Prog:
  def __init__(self, name):
    self.name = name; self.ins = []; self.labels = {}
  def L(self, name): self.labels[name] = len(self.ins)
  def emit(self, *ins): self.ins.append(ins)

class System:
  def __init__(self, qcap, qmax):
    self.shared = {}    # name -> init (int/bool)
    self.locks = []     # names (all reentrant)
    self.conds = {}     # cond -> lock
    self.progs = []
    self.locals = {}    # (tid,name)->init
    self.qcap = qcap    # 0 = unbounded (up to qmax)
    self.qmax = qmax
    self.logs = {}      # name -> maxlen

def mk_state(sysm, t):
  s = {}
  for v, init in sysm.shared.items():
    s[v] = z3.Bool(f'{v}@{t}') if isinstance(init, bool) else z3.BitVec(f'{v}@{t}', 8)
  for (tid, v), init in sysm.locals.items():
    s[(tid, v)] = z3.Bool(f'{v}.{tid}@{t}') if isinstance(init, bool) else z3.BitVec(f'{v}.{tid}@{t}', 8)
  for i, p in enumerate(sysm.progs):
    s[('pc', i)] = z3.BitVec(f'pc.{i}@{t}', 8)
  for l in sysm.locks:
    s[('own', l)] = z3.BitVec(f'own.{l}@{t}', 8); s[('cnt', l)] = z3.BitVec(f'cnt.{l}@{t}', 8)
  for c in sysm.conds:
    for i in range(len(sysm.progs)):
      s[('w', c, i)] = z3.BitVec(f'w.{c}.{i}@{t}', 8)  # 0 none, >0 ticket waiting, -1 notified
      s[('sv', c, i)] = z3.BitVec(f'sv.{c}.{i}@{t}', 8)  # saved lock count
  s['ticket'] = z3.BitVec(f'ticket@{t}', 8)
  for j in range(sysm.qmax):
    s[('q', j)] = z3.BitVec(f'q.{j}@{t}', 8)
  s['qlen'] = z3.BitVec(f'qlen@{t}', 8)
  for lg, n in sysm.logs.items():
    for j in range(n): s[('log', lg, j)] = z3.BitVec(f'log.{lg}.{j}@{t}', 8)
    s[('loglen', lg)] = z3.BitVec(f'loglen.{lg}@{t}', 8)
  return s

def init_constraints(sysm, s):
  cs = []
  for v, init in sysm.shared.items(): cs.append(s[v] == init)
  for k, init in sysm.locals.items(): cs.append(s[k] == init)
  for i in range(len(sysm.progs)): cs.append(s[('pc', i)] == 0)
  for l in sysm.locks: cs += [s[('own', l)] == -1, s[('cnt', l)] == 0]
  for c in sysm.conds:
    for i in range(len(sysm.progs)): cs += [s[('w', c, i)] == 0, s[('sv', c, i)] == 0]
  cs.append(s['ticket'] == 1)
  for j in range(sysm.qmax): cs.append(s[('q', j)] == 0)
  cs.append(s['qlen'] == 0)
  for lg, n in sysm.logs.items():
    for j in range(n): cs.append(s[('log', lg, j)] == 0)
    cs.append(s[('loglen', lg)] == 0)
  return cs

def ev(e, s, tid):
  """expr: python literal | 'name' (shared or local) | tuple(op, args...)"""
  if isinstance(e, bool): return z3.BoolVal(e)
  if isinstance(e, int): return z3.BitVecVal(e, 8)
  if isinstance(e, str):
    return s[(tid, e)] if (tid, e) in s else s[e]
  op, *a = e
  a = [ev(x, s, tid) for x in a]
  if op == '+': return a[0] + a[1]
  if op == '-': return a[0] - a[1]
  if op == '==': return a[0] == a[1]
  if op == '!=': return a[0] != a[1]
  if op == '<': return a[0] < a[1]
  if op == '>=': return a[0] >= a[1]
  if op == 'and': return z3.And(*a)
  if op == 'or': return z3.Or(*a)
  if op == 'not': return z3.Not(a[0])
  if op == 'ite': return z3.If(a[0], a[1], a[2])
  if op == 'min': return z3.If(a[0] < a[1], a[0], a[1])
  if op == 'max': return z3.If(a[0] > a[1], a[0], a[1])
  raise ValueError(op)

def edges(sysm, tid, s):
  """Yield (pcval, guard, updates{key:expr}, nextpc_expr) for thread tid in state s."""
  p = sysm.progs[tid]
  lab = p.labels
  for pc, ins in enumerate(p.ins):
    op = ins[0]
    nxt = z3.BitVecVal(pc + 1, 8)
    if op == 'set':
      _, var, e = ins
      key = (tid, var) if (tid, var) in s else var
      yield pc, z3.BoolVal(True), {key: ev(e, s, tid)}, nxt
    elif op == 'cjmp':
      _, e, l = ins
      yield pc, z3.BoolVal(True), {}, z3.If(ev(e, s, tid), z3.BitVecVal(lab[l], 8), z3.BitVecVal(pc + 1, 8))
    elif op == 'jmp':
      yield pc, z3.BoolVal(True), {}, z3.BitVecVal(lab[ins[1]], 8)
    elif op == 'acq':
      l = ins[1]; own, cnt = s[('own', l)], s[('cnt', l)]
      yield pc, z3.Or(own == -1, own == tid), {('own', l): z3.BitVecVal(tid, 8), ('cnt', l): cnt + 1}, nxt
    elif op == 'rel':
      l = ins[1]; own, cnt = s[('own', l)], s[('cnt', l)]
      yield pc, z3.BoolVal(True), {('own', l): z3.If(cnt == 1, -1, own), ('cnt', l): cnt - 1}, nxt
    elif op == 'wait':   # phase 1: release + register
      c = ins[1]; l = sysm.conds[c]
      yield pc, z3.BoolVal(True), {('own', l): z3.BitVecVal(-1, 8), ('cnt', l): z3.BitVecVal(0, 8),
          ('sv', c, tid): s[('cnt', l)], ('w', c, tid): s['ticket'], 'ticket': s['ticket'] + 1}, nxt
    elif op == 'wake':   # phase 2: notified and lock free -> reacquire
      c = ins[1]; l = sysm.conds[c]
      yield pc, z3.And(s[('w', c, tid)] == -1, s[('own', l)] == -1), {('own', l): z3.BitVecVal(tid, 8),
          ('cnt', l): s[('sv', c, tid)], ('w', c, tid): z3.BitVecVal(0, 8)}, nxt
    elif op == 'notify':
      c, all_ = ins[1], ins[2]
      n = len(sysm.progs)
      ups = {}
      ws = [s[('w', c, i)] for i in range(n)]
      for i in range(n):
        if all_:
          ups[('w', c, i)] = z3.If(ws[i] > 0, -1, ws[i])
        else:
          ismin = z3.And(ws[i] > 0, *[z3.Or(ws[j] <= 0, ws[i] <= ws[j]) for j in range(n) if j != i])
          ups[('w', c, i)] = z3.If(ismin, -1, ws[i])
      yield pc, z3.BoolVal(True), ups, nxt
    elif op == 'qput':   # ('qput', src_expr, full_label)
      _, e, l = ins
      full = (s['qlen'] >= sysm.qcap) if sysm.qcap else z3.BoolVal(False)
      ups = {'qlen': z3.If(full, s['qlen'], s['qlen'] + 1)}
      val = ev(e, s, tid)
      for j in range(sysm.qmax):
        ups[('q', j)] = z3.If(z3.And(z3.Not(full), s['qlen'] == j), val, s[('q', j)])
      yield pc, z3.BoolVal(True), ups, z3.If(full, z3.BitVecVal(lab[l], 8), z3.BitVecVal(pc + 1, 8))
    elif op == 'qget':   # ('qget', dst_local, empty_label)
      _, dst, l = ins
      empty = s['qlen'] == 0
      ups = {'qlen': z3.If(empty, s['qlen'], s['qlen'] - 1), (tid, dst): z3.If(empty, s[(tid, dst)], s[('q', 0)])}
      for j in range(sysm.qmax):
        nxtv = s[('q', j + 1)] if j + 1 < sysm.qmax else z3.BitVecVal(0, 8)
        ups[('q', j)] = z3.If(empty, s[('q', j)], nxtv)
      yield pc, z3.BoolVal(True), ups, z3.If(empty, z3.BitVecVal(lab[l], 8), z3.BitVecVal(pc + 1, 8))
    elif op == 'log':    # ('log', logname, expr)
      _, lg, e = ins
      n = sysm.logs[lg]; val = ev(e, s, tid)
      ups = {('loglen', lg): s[('loglen', lg)] + 1}
      for j in range(n):
        ups[('log', lg, j)] = z3.If(s[('loglen', lg)] == j, val, s[('log', lg, j)])
      yield pc, z3.BoolVal(True), ups, nxt
    elif op == 'halt':
      pass
    else:
      raise ValueError(ins)

def halted(sysm, tid, s):
  p = sysm.progs[tid]
  hs = [pc for pc, ins in enumerate(p.ins) if ins[0] == 'halt']
  return z3.Or(*[s[('pc', tid)] == h for h in hs])

def enabled(sysm, tid, s):
  return z3.Or(*[z3.And(s[('pc', tid)] == pc, g) for pc, g, _, _ in edges(sysm, tid, s)])

def trans(sysm, s, s2, sched):
  n = len(sysm.progs)
  cs = []
  # functional next-state per key
  nxt = {k: v for k, v in s.items()}
  any_en = []
  for tid in range(n):
    for pc, g, ups, npc in edges(sysm, tid, s):
      cond = z3.And(sched == tid, s[('pc', tid)] == pc)
      any_en.append(z3.And(cond, g))
      for k, e in ups.items():
        nxt[k] = z3.If(cond, e, nxt[k])
      nxt[('pc', tid)] = z3.If(cond, npc, nxt[('pc', tid)])
  cs.append(z3.Or(*any_en))
  for k in s: cs.append(s2[k] == nxt[k])
  return cs

def bmc(sysm, K, bad_final=None, want='deadlock', timeout=600):
  t0 = time.time()
  sol = z3.Solver(); sol.set('timeout', timeout * 1000)
  n = len(sysm.progs)
  states = [mk_state(sysm, 0)]
  sol.add(*init_constraints(sysm, states[0]))
  scheds = []
  # allow stuttering when nobody enabled? we instead search for deadlock at any depth
  results = {}
  for t in range(K):
    s = states[-1]
    s2 = mk_state(sysm, t + 1); sc = z3.BitVec(f'sched@{t}', 8)
    # query before extending: deadlock at depth t
    all_h = z3.And(*[halted(sysm, i, s) for i in range(n)])
    none_en = z3.And(*[z3.Not(enabled(sysm, i, s)) for i in range(n)])
    if want == 'deadlock':
      sol.push(); sol.add(none_en, z3.Not(all_h))
      r = sol.check()
      if r == z3.sat:
        m = sol.model(); sol.pop()
        return 'DEADLOCK', t, [m[x].as_long() for x in scheds], time.time() - t0
      sol.pop()
    if bad_final is not None:
      sol.push(); sol.add(all_h, bad_final(s))
      r = sol.check()
      if r == z3.sat:
        m = sol.model(); sol.pop()
        return 'BADFINAL', t, [m[x].as_long() for x in scheds], time.time() - t0
      sol.pop()
    sol.add(*trans(sysm, s, s2, sc)); sol.add(sc >= 0, sc < n)
    states.append(s2); scheds.append(sc)
  # unwinding check: can we still be running at depth K?
  r = sol.check()
  return ('BOUND_REACHABLE' if r == z3.sat else 'EXHAUSTED'), K, [], time.time() - t0
