import sys, time
from bmc_bv import *

def build(nprod, nitems, ncons, qcap, bug=None):
  sysm = System(qcap=qcap, qmax=max(qcap, nprod * nitems) if not qcap else qcap)
  sysm.shared = dict(start=0, stop=0, mx=nprod, exc=False, exhausted=False)
  sysm.locks = ['D', 'E', 'S']
  sysm.conds = {'D': 'D', 'E': 'E'}
  done = ('or', 'exc', ('and', ('!=', 'mx', 0), ('and', ('==', 'start', 'stop'), ('==', 'stop', 'mx'))))
  tid = 0
  for p in range(nprod):
    P = Prog(f'prod{p}')
    sysm.locals[(tid, 'i')] = 0
    P.emit('acq', 'S'); P.emit('set', 'start', ('+', 'start', 1)); P.emit('set', 'mx', ('max', 'mx', 'start')); P.emit('rel', 'S')
    P.L('loop'); P.emit('cjmp', done, 'end')
    P.emit('cjmp', ('>=', 'i', nitems), 'stopenq')
    P.emit('set', 'i', ('+', 'i', 1))
    P.emit('acq', 'E')
    P.L('ploop'); P.emit('cjmp', done, 'pexit')
    P.emit('qput', ('+', p * 100, 'i'), 'full')
    P.emit('rel', 'E'); P.emit('acq', 'D')
    if bug != 'no_notify_put': P.emit('notify', 'D', False)
    P.emit('rel', 'D'); P.emit('acq', 'E')
    P.emit('jmp', 'pexit')
    P.L('full'); P.emit('cjmp', done, 'pexit'); P.emit('wait', 'E'); P.emit('wake', 'E'); P.emit('jmp', 'ploop')
    P.L('pexit'); P.emit('rel', 'E'); P.emit('jmp', 'loop')
    P.L('stopenq'); P.emit('acq', 'S'); P.emit('set', 'stop', ('+', 'stop', 1)); P.emit('set', 'stop', ('min', 'stop', 'start'))
    P.emit('cjmp', ('not', done), 'sdone')
    P.emit('rel', 'S'); P.emit('acq', 'D')
    if bug != 'no_notify_stop': P.emit('notify', 'D', bug != 'notify_one_stop')
    P.emit('rel', 'D'); P.emit('acq', 'S')
    P.L('sdone'); P.emit('rel', 'S')
    P.L('end'); P.emit('halt')
    sysm.progs.append(P); tid += 1
  for c in range(ncons):
    C = Prog(f'cons{c}')
    sysm.locals[(tid, 'r')] = 0
    sysm.logs[f'c{c}'] = nprod * nitems
    C.L('get'); C.emit('acq', 'D')
    C.L('gloop'); C.emit('acq', 'S'); C.emit('qget', 'r', 'empty')
    C.emit('cjmp', ('not', ('and', ('==', 'qlen', 0), done)), 'noex')
    C.emit('set', 'exhausted', True); C.emit('notify', 'D', True)
    C.L('noex'); C.emit('rel', 'S')
    C.emit('rel', 'D'); C.emit('acq', 'E'); C.emit('notify', 'E', False); C.emit('rel', 'E'); C.emit('acq', 'D')
    C.emit('rel', 'D'); C.emit('log', f'c{c}', 'r'); C.emit('jmp', 'get')
    C.L('empty'); C.emit('cjmp', 'exhausted', 'stopit'); C.emit('cjmp', ('not', done), 'reraise')
    C.emit('set', 'exhausted', True); C.emit('notify', 'D', True)
    C.L('stopit'); C.emit('rel', 'S'); C.emit('rel', 'D'); C.emit('halt')
    C.L('reraise'); C.emit('rel', 'S'); C.emit('wait', 'D'); C.emit('wake', 'D'); C.emit('jmp', 'gloop')
    sysm.progs.append(C); tid += 1
  return sysm

if __name__ == '__main__':
  nprod, nitems, ncons, qcap, K = map(int, sys.argv[1:6]); bug = sys.argv[6] if len(sys.argv) > 6 else None
  sysm = build(nprod, nitems, ncons, qcap, bug)
  total = nprod * nitems
  def bad(s):
    # total received != total produced
    return z3.Sum([s[('loglen', lg)] for lg in sysm.logs]) != total
  print(sum(len(p.ins) for p in sysm.progs), 'instructions')
  print(bmc(sysm, K, bad_final=bad))
