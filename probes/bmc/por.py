import time, sys, itertools
from bmc_bv import *
from model_q_bv import build

def names_in(e):
  if isinstance(e, str): return {e}
  if isinstance(e, tuple): return set().union(*[names_in(x) for x in e[1:]]) if len(e) > 1 else set()
  return set()

def access(sysm, tid, ins):
  """(reads, writes) over resource names; locals excluded."""
  op = ins[0]
  sh = lambda ns: {n for n in ns if n in sysm.shared}
  if op == 'set':
    w = {ins[1]} if ins[1] in sysm.shared else set()
    return sh(names_in(ins[2])), w
  if op == 'cjmp': return sh(names_in(ins[1])), set()
  if op == 'jmp' or op == 'halt': return set(), set()
  if op in ('acq', 'rel'): return set(), {'L:' + ins[1]}
  if op == 'wait': return set(), {'L:' + sysm.conds[ins[1]], 'C:' + ins[1], 'ticket'}
  if op == 'wake': return set(), {'L:' + sysm.conds[ins[1]], 'C:' + ins[1]}
  if op == 'notify': return set(), {'C:' + ins[1]}
  if op == 'qput': return sh(names_in(ins[1])), {'Q'}
  if op == 'qget': return set(), {'Q'}
  if op == 'log': return sh(names_in(ins[2])), {'LOG:' + ins[1]}
  raise ValueError(ins)

def indep(a, b):
  (ra, wa), (rb, wb) = a, b
  return not (wa & wb or wa & rb or ra & wb)

def por_constraints(sysm, s, sc_t, sc_t1):
  cs = []
  n = len(sysm.progs)
  acc = [[access(sysm, i, ins) for ins in p.ins] for i, p in enumerate(sysm.progs)]
  for a in range(n):
    for b in range(a):
      bad = []
      for pa, xa in enumerate(acc[a]):
        row = [pb for pb, xb in enumerate(acc[b]) if indep(xa, xb)]
        if row:
          bad.append(z3.And(s[('pc', a)] == pa, z3.Or(*[s[('pc', b)] == pb for pb in row])))
      if bad:
        cs.append(z3.Not(z3.And(sc_t == a, sc_t1 == b, z3.Or(*bad))))
  return cs

if __name__ == '__main__':
  nprod, nitems, ncons, qcap, K = map(int, sys.argv[1:6]); use_por = sys.argv[6] == '1'
  sysm = build(nprod, nitems, ncons, qcap)
  sol = z3.SolverFor('QF_BV')
  n = len(sysm.progs)
  states = [mk_state(sysm, 0)]
  sol.add(*init_constraints(sysm, states[0]))
  scheds = []
  t0 = time.time()
  for t in range(K):
    s = states[-1]; s2 = mk_state(sysm, t + 1); sc = z3.BitVec(f'sched@{t}', 8)
    sol.add(*trans(sysm, s, s2, sc)); sol.add(sc >= 0, sc < n)
    if use_por and scheds:
      sol.add(*por_constraints(sysm, states[-2], scheds[-1], sc)) if False else None
    states.append(s2); scheds.append(sc)
    if use_por and len(scheds) >= 2:
      # pcs at time t-1 (before step t-1): thread b did not move in step t-1, so pc_b same at t-1 and t
      sol.add(*por_constraints(sysm, states[-3], scheds[-2], scheds[-1]))
    if t % 5 == 4 or t > 55:
      tb = time.time(); r = sol.check()
      print(t, r, '%.2f' % (time.time() - tb), 'total %.1f' % (time.time() - t0), flush=True)
      if r == z3.unsat: break
