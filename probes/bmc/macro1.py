"""Macro-step BMC probe: context switches only before PPs (acquire / wake / queue op / shared access)."""
import sys, time
import z3
from bmc_bv import mk_state, init_constraints, ev, System, Prog
from model_q_bv import build
from por import names_in

W = 8
def C(x): return z3.BitVecVal(x, W)

def touches_shared(sysm, e): return any(n in sysm.shared for n in names_in(e))
def is_pp(sysm, ins):
  op = ins[0]
  if op in ('acq', 'wake', 'qput', 'qget', 'halt'): return True
  if op == 'set': return ins[1] in sysm.shared or touches_shared(sysm, ins[2])
  if op == 'cjmp': return touches_shared(sysm, ins[1])
  return False

def step1(sysm, tid, pc, st):
  """Execute instruction at concrete pc on symbolic state dict st -> list of (cond, st', nextpc:int)."""
  p = sysm.progs[tid]; ins = p.ins[pc]; op = ins[0]; lab = p.labels
  st = dict(st)
  if op == 'set':
    key = (tid, ins[1]) if (tid, ins[1]) in st else ins[1]
    st[key] = ev(ins[2], st, tid); return [(None, st, pc + 1)]
  if op == 'cjmp':
    c = ev(ins[1], st, tid); return [(c, st, lab[ins[2]]), (z3.Not(c), st, pc + 1)]
  if op == 'jmp': return [(None, st, lab[ins[1]])]
  if op == 'acq':
    l = ins[1]; st[('own', l)] = C(tid); st[('cnt', l)] = st[('cnt', l)] + 1; return [(None, st, pc + 1)]
  if op == 'rel':
    l = ins[1]; own, cnt = st[('own', l)], st[('cnt', l)]
    st[('own', l)] = z3.If(cnt == 1, C(-1), own); st[('cnt', l)] = cnt - 1; return [(None, st, pc + 1)]
  if op == 'wait':
    c = ins[1]; l = sysm.conds[c]
    st[('sv', c, tid)] = st[('cnt', l)]; st[('own', l)] = C(-1); st[('cnt', l)] = C(0)
    st[('w', c, tid)] = st['ticket']; st['ticket'] = st['ticket'] + 1; return [(None, st, pc + 1)]
  if op == 'wake':
    c = ins[1]; l = sysm.conds[c]
    st[('own', l)] = C(tid); st[('cnt', l)] = st[('sv', c, tid)]; st[('w', c, tid)] = C(0); return [(None, st, pc + 1)]
  if op == 'notify':
    c, all_ = ins[1], ins[2]; n = len(sysm.progs); ws = [st[('w', c, i)] for i in range(n)]
    for i in range(n):
      if all_: st[('w', c, i)] = z3.If(ws[i] > 0, C(-1), ws[i])
      else:
        ismin = z3.And(ws[i] > 0, *[z3.Or(ws[j] <= 0, ws[i] <= ws[j]) for j in range(n) if j != i])
        st[('w', c, i)] = z3.If(ismin, C(-1), ws[i])
    return [(None, st, pc + 1)]
  if op == 'qput':
    full = (st['qlen'] >= sysm.qcap) if sysm.qcap else z3.BoolVal(False)
    val = ev(ins[1], st, tid); st2 = dict(st)
    for j in range(sysm.qmax): st2[('q', j)] = z3.If(st['qlen'] == j, val, st[('q', j)])
    st2['qlen'] = st['qlen'] + 1
    return [(z3.Not(full), st2, pc + 1), (full, st, lab[ins[2]])]
  if op == 'qget':
    empty = st['qlen'] == 0; st2 = dict(st)
    st2[(tid, ins[1])] = st[('q', 0)]
    for j in range(sysm.qmax): st2[('q', j)] = st[('q', j + 1)] if j + 1 < sysm.qmax else C(0)
    st2['qlen'] = st['qlen'] - 1
    return [(z3.Not(empty), st2, pc + 1), (empty, st, lab[ins[2]])]
  if op == 'log':
    lg = ins[1]; n = sysm.logs[lg]; val = ev(ins[2], st, tid)
    for j in range(n): st[('log', lg, j)] = z3.If(st[('loglen', lg)] == j, val, st[('log', lg, j)])
    st[('loglen', lg)] = st[('loglen', lg)] + 1; return [(None, st, pc + 1)]
  raise ValueError(ins)

def merge(c, a, b):
  (sa, pa), (sb, pb) = a, b
  out = {}
  for k in sa:
    out[k] = sa[k] if sa[k] is sb[k] else z3.If(c, sa[k], sb[k])
  return out, z3.If(c, pa, pb)

def frag(sysm, tid, pc, st, first=True, depth=0):
  assert depth < 60
  p = sysm.progs[tid]
  if not first and is_pp(sysm, p.ins[pc]): return st, C(pc)
  if p.ins[pc][0] == 'halt': return st, C(pc)
  outs = step1(sysm, tid, pc, st)
  if len(outs) == 1: return frag(sysm, tid, outs[0][2], outs[0][1], False, depth + 1)
  (c, s1, p1), (_, s2, p2) = outs
  return merge(c, frag(sysm, tid, p1, s1, False, depth + 1), frag(sysm, tid, p2, s2, False, depth + 1))

def guard(sysm, tid, pc, st):
  ins = sysm.progs[tid].ins[pc]
  if ins[0] == 'acq': return z3.Or(st[('own', ins[1])] == C(-1), st[('own', ins[1])] == C(tid))
  if ins[0] == 'wake':
    c = ins[1]; return z3.And(st[('w', c, tid)] == C(-1), st[('own', sysm.conds[c])] == C(-1))
  if ins[0] == 'halt': return z3.BoolVal(False)
  return z3.BoolVal(True)

def pps(sysm, tid):
  p = sysm.progs[tid]
  return [pc for pc, ins in enumerate(p.ins) if is_pp(sysm, ins) or pc == 0]

def access_frag(sysm, tid, pc):
  """Static over-approx of resources touched by the fragment starting at pc (for peephole POR)."""
  from por import access
  p = sysm.progs[tid]; seen = set(); R, Wr = set(), set(); stack = [(pc, True)]
  while stack:
    q, first = stack.pop()
    if q in seen and not first: continue
    ins = p.ins[q]
    if not first and is_pp(sysm, ins): continue
    if ins[0] == 'halt': continue
    seen.add(q); r, w = access(sysm, tid, ins); R |= r; Wr |= w
    if ins[0] == 'cjmp': stack += [(p.labels[ins[2]], False), (q + 1, False)]
    elif ins[0] == 'jmp': stack.append((p.labels[ins[1]], False))
    elif ins[0] in ('qput', 'qget'): stack += [(p.labels[ins[2]], False), (q + 1, False)]
    else: stack.append((q + 1, False))
  return R, Wr

def main():
  nprod, nitems, ncons, qcap, K = map(int, sys.argv[1:6]); bug = sys.argv[6] if len(sys.argv) > 6 and sys.argv[6] != '-' else None
  sysm = build(nprod, nitems, ncons, qcap, bug); n = len(sysm.progs); total = nprod * nitems
  PP = [pps(sysm, i) for i in range(n)]
  print('PPs per thread', [len(x) for x in PP], 'instrs', [len(p.ins) for p in sysm.progs])
  ACC = [{pc: access_frag(sysm, i, pc) for pc in PP[i]} for i in range(n)]
  def indep(a, b): return not (a[1] & b[1] or a[1] & b[0] or a[0] & b[1])
  sol = z3.SolverFor('QF_BV')
  states = [mk_state(sysm, 0)]; sol.add(*init_constraints(sysm, states[0])); scheds = []
  t0 = time.time()
  def en(i, s): return z3.Or(*[z3.And(s[('pc', i)] == C(pc), guard(sysm, i, pc, s)) for pc in PP[i]])
  def halted(i, s): return z3.Or(*[s[('pc', i)] == C(pc) for pc, ins in enumerate(sysm.progs[i].ins) if ins[0] == 'halt'])
  for t in range(K):
    s = states[-1]; s2 = mk_state(sysm, t + 1); sc = z3.BitVec(f'sched@{t}', W)
    all_h = z3.And(*[halted(i, s) for i in range(n)]); none_en = z3.And(*[z3.Not(en(i, s)) for i in range(n)])
    tb = time.time()
    nxt = dict(s); anyen = []
    for i in range(n):
      for pc in PP[i]:
        if sysm.progs[i].ins[pc][0] == 'halt': continue
        cond = z3.And(sc == i, s[('pc', i)] == C(pc)); anyen.append(z3.And(cond, guard(sysm, i, pc, s)))
        st2, npc = frag(sysm, i, pc, s)
        for k in s:
          if k == ('pc', i): nxt[k] = z3.If(cond, npc, nxt[k])
          elif st2[k] is not s[k]: nxt[k] = z3.If(cond, st2[k], nxt[k])
    stut = z3.And(none_en, sc == 0)
    sol.add(z3.Or(stut, *anyen)); sol.add(*[s2[k] == z3.If(none_en, s[k], nxt[k]) for k in s]); sol.add(sc >= 0, sc < n)
    if scheds:   # peephole POR on (step t-1, step t), pcs read at state t-1
      sp = states[-2]
      for a in range(n):
        for b in range(a):
          bad = []
          for pa in PP[a]:
            row = [pb for pb in PP[b] if indep(ACC[a][pa], ACC[b][pb])]
            if row: bad.append(z3.And(sp[('pc', a)] == C(pa), z3.Or(*[sp[('pc', b)] == C(pb) for pb in row])))
          if bad: sol.add(z3.Not(z3.And(scheds[-1] == a, sc == b, z3.Or(*bad))))
    states.append(s2); scheds.append(sc)
  s = states[-1]
  all_h = z3.And(*[halted(i, s) for i in range(n)]); some_en = z3.Or(*[en(i, s) for i in range(n)])
  bad = z3.And(all_h, z3.Sum([z3.ZeroExt(8, s[('loglen', lg)]) for lg in sysm.logs]) != total)
  print('built %.1f' % (time.time() - t0), flush=True)
  for name, q in [('still_running', some_en), ('deadlock', z3.And(z3.Not(some_en), z3.Not(all_h))), ('bad_final', bad), ('witness_all_halted', all_h)]:
    tb = time.time(); sol.push(); sol.add(q); r = sol.check()
    print(name, r, '%.1f' % (time.time() - tb), flush=True)
    if r == z3.sat and name != 'witness_all_halted':
      m = sol.model(); print('  sched', [m[x].as_long() for x in scheds])
    sol.pop()
  print('total %.1f' % (time.time() - t0))
main()
