from ml_metrics._src.chainables import io

class Seq:
  """Abstract random-access sequence of length n whose i-th element is i."""
  def __init__(self, n): self.n = n
  def __len__(self): return self.n
  def __getitem__(self, i):
    if isinstance(i, slice):
      start, stop, step = i.indices(self.n)
      return list(range(start, stop, step))
    if i < 0: i += self.n
    if not 0 <= i < self.n: raise IndexError(i)
    return i

def shard_bounds(n: int, k: int, i: int):
  """
  pre: 0 <= n <= 12
  pre: 1 <= k <= 6
  pre: 0 <= i < k
  post: _[0] <= _[1]
  post: _[1] - _[0] in (n // k, n // k + 1)
  post: (i > 0) or _[0] == 0
  post: (i < k - 1) or _[1] == n
  """
  ds = io.SequenceDataSource(Seq(n))
  s = ds.shard(i, k)
  return (s.start, s.end)

def shard_adjacent(n: int, k: int, i: int):
  """
  pre: 0 <= n <= 12
  pre: 2 <= k <= 6
  pre: 0 <= i < k - 1
  post: _
  """
  ds = io.SequenceDataSource(Seq(n))
  a = ds.shard(i, k)
  b = ds.shard(i + 1, k)
  return a.end == b.start and len(a) >= len(b)
