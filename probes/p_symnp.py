"""Feasibility probe: run the real MeanAndVariance.new/merge over z3-Real proxies via a numpy facade."""
import z3, numpy as real_np, types as _t, time
from ml_metrics._src.aggregates import rolling_stats
from ml_metrics._src.utils import math_utils

class ForkNeeded(Exception): pass

class R:
  """Real-valued symbolic scalar (never NaN); NaN inputs are concrete float('nan')."""
  __array_priority__ = 1000
  def __init__(self, t): self.t = t if z3.is_expr(t) else z3.RealVal(t)
  @staticmethod
  def lift(x):
    if isinstance(x, R): return x
    if isinstance(x, B): return R(z3.If(x.t, z3.RealVal(1), z3.RealVal(0)))
    if isinstance(x, (int, float, real_np.integer, real_np.floating)):
      if x != x: return None
      return R(z3.RealVal(repr(float(x))) if not float(x).is_integer() else z3.RealVal(int(x)))
    raise TypeError(type(x))
  def _bin(self, o, f):
    o = R.lift(o)
    return float('nan') if o is None else R(z3.simplify(f(self.t, o.t)))
  def __add__(s, o): return s._bin(o, lambda a, b: a + b)
  __radd__ = __add__
  def __sub__(s, o): return s._bin(o, lambda a, b: a - b)
  def __rsub__(s, o): return s._bin(o, lambda a, b: b - a)
  def __mul__(s, o): return s._bin(o, lambda a, b: a * b)
  __rmul__ = __mul__
  def __neg__(s): return R(-s.t)
  def __pow__(s, k): assert k == 2; return R(s.t * s.t)
  def __truediv__(s, o):
    o = R.lift(o); assert z3.is_rational_value(o.t) and o.t.as_fraction() != 0, 'symbolic divisor needs a fork'
    return R(z3.simplify(s.t / o.t))
  def __gt__(s, o): return B(s.t > R.lift(o).t)
  def __ne__(s, o): return B(s.t != R.lift(o).t)
  def __eq__(s, o): return B(s.t == R.lift(o).t)
  __hash__ = None
  def __repr__(s): return f'R({s.t})'

class B:
  def __init__(self, t): self.t = t
  def __bool__(self): raise ForkNeeded(self.t)

def _isnan1(x): return isinstance(x, float) and x != x
class NP:
  def __getattr__(self, name): return getattr(real_np, name)
  def asarray(self, x, dtype=None):
    a = real_np.asarray(x) if not isinstance(x, (list, tuple)) or not any(isinstance(e, R) for e in real_np.ravel(real_np.array(x, dtype=object))) else real_np.array(x, dtype=object)
    return a
  def isnan(self, x):
    if isinstance(x, real_np.ndarray) and x.dtype == object:
      return real_np.frompyfunc(_isnan1, 1, 1)(x).astype(bool)
    if isinstance(x, R): return False
    return real_np.isnan(x)
  def sum(self, x, axis=None): return real_np.sum(x, axis=axis)
  def nanmean(self, x, axis=None):
    m = ~self.isnan(x); assert x.ndim == 1
    vals = [v for v, k in zip(x, m) if k]
    return (sum(vals[1:], vals[0]) / len(vals)) if vals else float('nan')
  def nanvar(self, x, axis=None):
    m = ~self.isnan(x); vals = [v for v, k in zip(x, m) if k]
    if not vals: return float('nan')
    mu = sum(vals[1:], vals[0]) / len(vals)
    d = [(v - mu) ** 2 for v in vals]
    return sum(d[1:], d[0]) / len(vals)
  def all(self, x): return bool(real_np.all(x))
  def copy(self, x): return x if isinstance(x, R) else real_np.copy(x)
  def zeros_like(self, a, dtype=None): return 0.0 if not isinstance(a, real_np.ndarray) else real_np.zeros_like(a, dtype=object)
  def divide(self, a, b, out=None, where=True):
    # scalar case only in this probe
    class _S:
      ndim = 0
      def __init__(s, v): s.v = v
      def item(s): return s.v
    if isinstance(where, B): raise ForkNeeded(where.t)
    return _S(a / b if where else out)
  def where(self, c, x, y): return real_np.where(c, x, y)

fac = NP()
rolling_stats.np = fac; math_utils.np = fac

def run(na, nb):
  a = [R(z3.Real(f'a{i}')) for i in range(na)]; b = [R(z3.Real(f'b{i}')) for i in range(nb)]
  M = rolling_stats.MeanAndVariance
  whole = M().new(a + b)
  acc = M(); acc.merge(M().new(a)); acc.merge(M().new(b))
  s = z3.Solver()
  s.add(z3.Or(acc.var.t != whole.var.t, acc.mean.t != whole.mean.t))
  return s.check(), acc.count, whole.count
t = time.time(); print(run(2, 3), '%.2fs' % (time.time() - t))
