from ml_metrics._src.utils import iter_utils
from p_rebatch2 import _NpShim
iter_utils.np = _NpShim

def _check(sizes, batch_size):
  batches = []
  c = 0
  for s in sizes:
    col0 = list(range(c, c + s))
    col1 = [x + 100 for x in col0]
    batches.append((col0, col1))
    c += s
  out = list(iter_utils.rebatched_args(iter(batches), batch_size, num_columns=2))
  flat0 = [x for b in out for x in b[0]]
  flat1 = [x for b in out for x in b[1]]
  ok = flat0 == list(range(c)) and flat1 == [x + 100 for x in range(c)]
  ok = ok and all(len(b[0]) == batch_size for b in out[:-1])
  ok = ok and all(len(b[0]) == len(b[1]) for b in out)
  ok = ok and (not out or 0 < len(out[-1][0]) <= batch_size)
  return ok

def rebatch_3_2(s0: int, s1: int, s2: int):
  """
  pre: 0 <= s0 <= 4 and 0 <= s1 <= 4 and 0 <= s2 <= 4
  post: _
  """
  return _check([s0, s1, s2], 2)
