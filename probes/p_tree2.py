import copy
from ml_metrics._src.chainables import tree

KEYS = ('a', 'b')

def build(ch, pos, depth, leaves):
  """Recursive builder driven by choice ints ch[pos[0]]; returns tree. 0 leaf,1 dict1,2 dict2,3 list1,4 list2,5 tuple1"""
  c = 0
  if depth > 0:
    c = ch[pos[0]]; pos[0] += 1
  if c == 0:
    v = leaves[pos[1]]; pos[1] += 1
    return v
  if c == 1: return {'a': build(ch, pos, depth - 1, leaves)}
  if c == 2: return {'a': build(ch, pos, depth - 1, leaves), 'b': build(ch, pos, depth - 1, leaves)}
  if c == 3: return [build(ch, pos, depth - 1, leaves)]
  if c == 4: return [build(ch, pos, depth - 1, leaves), build(ch, pos, depth - 1, leaves)]
  return (build(ch, pos, depth - 1, leaves),)

def paths(t, prefix=()):
  if isinstance(t, dict):
    for k, v in t.items(): yield from paths(v, prefix + (k,))
  elif isinstance(t, (list, tuple)):
    for i, v in enumerate(t): yield from paths(v, prefix + (tree.Index(i),))
  else:
    yield prefix

def get(t, p):
  for k in p: t = t[k]
  return t

def law(c0: int, c1: int, c2: int, l0: int, l1: int, l2: int, l3: int, which: int, v: int):
  """
  pre: 1 <= c0 <= 5 and 0 <= c1 <= 5 and 0 <= c2 <= 5
  pre: 0 <= which <= 3
  post: _
  """
  t = build([c0, c1, c2], [0, 0], 2, [l0, l1, l2, l3])
  ps = list(paths(t))
  if which >= len(ps): return True
  p = ps[which]
  snap = copy.deepcopy(t)
  view = tree.TreeMapView(t)
  new = view.copy_and_set(tree.Key(p), v).data
  ok = get(new, p) == v and t == snap
  for q in ps:
    if q != p:
      ok = ok and get(new, q) is get(t, q)
  # leaves enumerated exactly once with paths reading back
  items = list(tree.TreeMapView(t).items())
  ok = ok and len(items) == len(ps) and all(tree.TreeMapView(t)[k] is val for k, val in items)
  return ok
