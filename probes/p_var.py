import z3, time
def mean(xs): return z3.Sum(xs) / len(xs)
def var(xs):
  m = mean(xs); return z3.Sum([(x - m) * (x - m) for x in xs]) / len(xs)
for na, nb in [(1,1),(2,2),(2,3),(3,3),(4,4)]:
  a = [z3.Real(f'a{i}') for i in range(na)]; b = [z3.Real(f'b{i}') for i in range(nb)]
  n = na + nb
  ma, va, mb, vb = mean(a), var(a), mean(b), var(b)
  # the repo's formula (rolling_stats.py:401-410) transcribed
  cnt = n; prev_ratio = z3.RealVal(na) / cnt; other_ratio = z3.RealVal(nb) / cnt
  new_mean = ma + (mb - ma) * other_ratio
  delta_mean = new_mean - ma; mean_diff = mb - new_mean
  new_var = prev_ratio * va + other_ratio * vb + prev_ratio * delta_mean * delta_mean + other_ratio * mean_diff * mean_diff
  s = z3.Solver(); s.add(z3.Or(new_var != var(a + b), new_mean != mean(a + b)))
  t = time.time(); r = s.check(); print(na, nb, r, '%.2fs' % (time.time() - t))
  # mutant: drop the delta_mean term weight
  s = z3.Solver(); bad = prev_ratio * va + other_ratio * vb + other_ratio * delta_mean * delta_mean + other_ratio * mean_diff * mean_diff
  s.add(bad != var(a + b)); t = time.time(); r = s.check(); print('  mutant', r, '%.2fs' % (time.time() - t))
